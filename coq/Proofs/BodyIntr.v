(* The body reader over a stream with transient failures (Model/BodyIntr.v): interruptions are transparent.
   Whatever the positions of the interrupted reads, a caller that retries gets exactly the payload of the body and then
   end-of-body (needing at most one more call per interruption), and a cut-short or malformed body never ends in a normal
   end-of-body.  On a stream without interruptions the model is the one of Model/Body.v (embedding).
   The proof follows Proofs/BodyBase.v / BodyBaseChunk.v / BodyRead.v / BodyBufRead.v: every operation is specified against
   the bytes still reachable in the source with the interruptions stripped ([reach (plain_src s)]) and the abstract position
   [st_dec] of Proofs/BodyBaseChunk.v, plus the number of interruptions still ahead ([ci]), which an interrupted call
   strictly decreases. *)
From KV Require Import Lib.Bytes Lib.Utf8 Model.Body Model.BodyIntr Spec.ChunkedSpec Proofs.BodyBase Proofs.BodyBaseChunk.

Local Open Scope N_scope.

(* ------------------------------------------------------------------ the source *)
Definition ci (s : src_e) : nat := count_intr (evs_e s).
Definition reach_e (s : src_e) : bytes := reach (plain_src s).

Lemma reach_e_eq s : reach_e s = bbuf_e s ++ tail3 (lo_e s) (strip (evs_e s)) (stake_e s).
Proof. reflexivity. Qed.

(* the fuel fixed at creation covers the reachable bytes and the interruptions ahead *)
Definition Bound_e (s : src_e) : Prop := (4 * S (length (reach_e s)) + 8 + ci s <= sfuel_e s)%nat.

Lemma Bound_e_mk lo evs : Bound_e (mk_src_e lo evs).
Proof.
  unfold Bound_e, ci, reach_e, mk_src_e, plain_src, reach, tail3. cbn [bbuf Body.lo segs sfuel stake app evs_e sfuel_e bbuf_e lo_e stake_e].
  rewrite app_length. lia.
Qed.

Lemma Bound_e_mk_take lo evs n : Bound_e (mk_src_take_e lo evs n).
Proof.
  unfold Bound_e, ci, reach_e, mk_src_take_e, plain_src, reach. cbn [bbuf Body.lo segs sfuel stake app evs_e sfuel_e bbuf_e lo_e stake_e].
  pose proof (length_tail3_le lo (strip evs) (Some n)) as H. rewrite app_length in H. lia.
Qed.

Lemma reach_e_mk lo evs : reach_e (mk_src_e lo evs) = lo ++ concat (strip evs).
Proof. reflexivity. Qed.

Lemma reach_e_mk_take lo evs n : reach_e (mk_src_take_e lo evs n) = firstnN n (lo ++ concat (strip evs)).
Proof. reflexivity. Qed.

Lemma Bound_e_shrink s s' : sfuel_e s' = sfuel_e s -> (length (reach_e s') <= length (reach_e s))%nat ->
  (ci s' <= ci s)%nat -> Bound_e s -> Bound_e s'.
Proof. unfold Bound_e. intros Hf Hl Hc Hb. rewrite Hf. lia. Qed.

Lemma Bound_e_split s s' out : sfuel_e s' = sfuel_e s -> reach_e s = out ++ reach_e s' ->
  (ci s' <= ci s)%nat -> Bound_e s -> Bound_e s'.
Proof. intros Hf Hs. apply Bound_e_shrink; [exact Hf|]. rewrite Hs, app_length. lia. Qed.

Lemma Bound_e_fuel s : Bound_e s -> (length (reach_e s) + ci s < sfuel_e s /\ 12 <= sfuel_e s)%nat.
Proof. unfold Bound_e. lia. Qed.

Lemma Bound_e_plain s : Bound_e s -> Bound (plain_src s).
Proof. unfold Bound_e, Bound, reach_e. cbn [plain_src sfuel]. lia. Qed.

Lemma stream_read_e_spec k ev :
  (exists out ev', stream_read_e k ev = EOk out ev' /\ concat (strip ev) = out ++ concat (strip ev') /\
      lenN out <= k /\ (count_intr ev' <= count_intr ev)%nat /\ (0 < k -> out = [] -> concat (strip ev) = [])) \/
  (exists ev', stream_read_e k ev = EIntr ev' /\ concat (strip ev') = concat (strip ev) /\
      (count_intr ev' < count_intr ev)%nat).
Proof.
  induction ev as [|[g|] rest IH].
  - left. exists [], []. cbn [stream_read_e strip concat app]. rewrite lenN_nil.
    split; [reflexivity|]. split; [reflexivity|]. split; [lia|]. split; [lia|]. intros _ _. reflexivity.
  - destruct g as [|x g].
    + cbn [stream_read_e strip concat app count_intr]. exact IH.
    + left. cbn [stream_read_e]. remember (x :: g) as G eqn:EG.
      assert (HG : G <> []) by (subst G; discriminate).
      cbn [strip concat count_intr].
      destruct (skipnN k G) as [|y g'] eqn:Esk.
      * exists (firstnN k G), rest. split; [reflexivity|]. split.
        { rewrite <- (firstnN_skipnN k G) at 1. rewrite Esk, app_nil_r. reflexivity. }
        split; [apply lenN_firstnN_le|]. split; [lia|].
        intros Hk Ho. exfalso. exact (firstnN_nonempty k G Hk HG Ho).
      * exists (firstnN k G), (SData (y :: g') :: rest). split; [reflexivity|]. split.
        { cbn [strip concat]. rewrite <- Esk, app_assoc, firstnN_skipnN. reflexivity. }
        split; [apply lenN_firstnN_le|]. split; [cbn [count_intr]; lia|].
        intros Hk Ho. exfalso. exact (firstnN_nonempty k G Hk HG Ho).
  - right. exists rest. cbn [stream_read_e strip count_intr]. split; [reflexivity|]. split; [reflexivity|lia].
Qed.

Lemma inner_read_e_spec k l ev :
  (exists out l' ev', inner_read_e k l ev = EOk out (l', ev') /\
      l ++ concat (strip ev) = out ++ l' ++ concat (strip ev') /\ lenN out <= k /\
      (count_intr ev' <= count_intr ev)%nat /\ (0 < k -> out = [] -> l ++ concat (strip ev) = [])) \/
  (exists l' ev', inner_read_e k l ev = EIntr (l', ev') /\
      l' ++ concat (strip ev') = l ++ concat (strip ev) /\ (count_intr ev' < count_intr ev)%nat).
Proof.
  unfold inner_read_e. destruct l as [|x l].
  - destruct (stream_read_e_spec k ev) as [[out [ev' [E [E1 [E2 [E3 E4]]]]]]|[ev' [E [E1 E2]]]]; rewrite E; cbn [emap app].
    + left. exists out, [], ev'. split; [reflexivity|]. repeat split; assumption.
    + right. exists [], ev'. split; [reflexivity|]. split; [exact E1|exact E2].
  - left. remember (x :: l) as L eqn:EL. exists (firstnN k L), (skipnN k L), ev.
    split; [reflexivity|]. split; [rewrite app_assoc, firstnN_skipnN; reflexivity|].
    split; [apply lenN_firstnN_le|]. split; [lia|].
    intros Hk Ho. exfalso. apply (firstnN_nonempty k L Hk); [subst L; discriminate|exact Ho].
Qed.

Lemma take_read_e_spec k s :
  (exists out l' ev' tk, take_read_e k s = EOk out (l', ev', tk) /\
      tail3 (lo_e s) (strip (evs_e s)) (stake_e s) = out ++ tail3 l' (strip ev') tk /\ lenN out <= k /\
      (count_intr ev' <= ci s)%nat /\ (0 < k -> out = [] -> tail3 (lo_e s) (strip (evs_e s)) (stake_e s) = [])) \/
  (exists l' ev' tk, take_read_e k s = EIntr (l', ev', tk) /\
      tail3 l' (strip ev') tk = tail3 (lo_e s) (strip (evs_e s)) (stake_e s) /\ (count_intr ev' < ci s)%nat).
Proof.
  unfold take_read_e, tail3, ci. destruct (stake_e s) as [lim|].
  - destruct (N.eqb_spec lim 0) as [E0|E0].
    + left. exists [], (lo_e s), (evs_e s), (Some 0). subst lim. rewrite !firstnN_0, lenN_nil.
      split; [reflexivity|]. split; [reflexivity|]. split; [lia|]. split; [lia|]. intros _ _. reflexivity.
    + destruct (inner_read_e_spec (N.min k lim) (lo_e s) (evs_e s))
        as [[out [l' [ev' [E [E1 [E2 [E3 E4]]]]]]]|[l' [ev' [E [E1 E2]]]]]; rewrite E.
      * left. exists out, l', ev', (Some (lim - lenN out)). split; [reflexivity|].
        rewrite E1. split; [apply firstnN_app_le; lia|]. split; [lia|]. split; [exact E3|].
        intros Hk Ho. rewrite <- E1, E4 by (lia || exact Ho). reflexivity.
      * right. exists l', ev', (Some lim). split; [reflexivity|]. rewrite E1. split; [reflexivity|exact E2].
  - destruct (inner_read_e_spec k (lo_e s) (evs_e s))
      as [[out [l' [ev' [E [E1 [E2 [E3 E4]]]]]]]|[l' [ev' [E [E1 E2]]]]]; rewrite E; cbn [emap].
    + left. exists out, l', ev', None. split; [reflexivity|]. repeat split; assumption.
    + right. exists l', ev', None. split; [reflexivity|]. split; [exact E1|exact E2].
Qed.

Lemma fill_buf_e_spec s :
  (exists s', fill_buf_e s = EOk (bbuf_e s') s' /\ reach_e s' = reach_e s /\ sfuel_e s' = sfuel_e s /\
      (ci s' <= ci s)%nat /\ (bbuf_e s' = [] -> reach_e s = [])) \/
  (exists s', fill_buf_e s = EIntr s' /\ reach_e s' = reach_e s /\ sfuel_e s' = sfuel_e s /\ (ci s' < ci s)%nat).
Proof.
  unfold fill_buf_e. destruct (bbuf_e s) as [|x b] eqn:Eb.
  - destruct (take_read_e_spec BUF_SIZE s)
      as [[out [l' [ev' [tk [E [E1 [E2 [E3 E4]]]]]]]]|[l' [ev' [tk [E [E1 E2]]]]]]; rewrite E.
    + left. exists (with_tail s out (l', ev', tk)). split; [reflexivity|]. rewrite !reach_e_eq. unfold ci in *.
      cbn [with_tail bbuf_e lo_e evs_e sfuel_e stake_e]. rewrite Eb. cbn [app].
      split; [symmetry; exact E1|]. split; [reflexivity|]. split; [exact E3|].
      intros Ho. apply E4; [reflexivity|exact Ho].
    + right. eexists. split; [reflexivity|]. rewrite !reach_e_eq. unfold ci in *.
      cbn [with_tail bbuf_e lo_e evs_e sfuel_e stake_e]. rewrite Eb. cbn [app].
      split; [exact E1|]. split; [reflexivity|exact E2].
  - left. exists s. rewrite Eb. split; [reflexivity|]. split; [reflexivity|]. split; [reflexivity|].
    split; [lia|]. discriminate.
Qed.

(* consuming a prefix of the buffer *)
Lemma consume_e_prefix s out t : bbuf_e s = out ++ t ->
  reach_e s = out ++ reach_e (consume_e (lenN out) s) /\ sfuel_e (consume_e (lenN out) s) = sfuel_e s /\
  ci (consume_e (lenN out) s) = ci s.
Proof.
  intros Hb. destruct (consume_prefix (plain_src s) out t Hb) as [C1 C2].
  split; [exact C1|]. split; reflexivity.
Qed.

Lemma consume_e_firstnN s k :
  reach_e s = firstnN k (bbuf_e s) ++ reach_e (consume_e k s) /\ sfuel_e (consume_e k s) = sfuel_e s /\
  ci (consume_e k s) = ci s.
Proof.
  destruct (consume_firstnN (plain_src s) k) as [C1 C2].
  split; [exact C1|]. split; reflexivity.
Qed.

Lemma buf_read_e_spec k s :
  (exists out s', buf_read_e k s = EOk out s' /\ reach_e s = out ++ reach_e s' /\ lenN out <= k /\
      sfuel_e s' = sfuel_e s /\ (ci s' <= ci s)%nat /\ (0 < k -> out = [] -> reach_e s = [])) \/
  (exists s', buf_read_e k s = EIntr s' /\ reach_e s' = reach_e s /\ sfuel_e s' = sfuel_e s /\ (ci s' < ci s)%nat).
Proof.
  unfold buf_read_e. destruct (bbuf_e s) as [|x b] eqn:Eb.
  - destruct (N.leb BUF_SIZE k).
    + destruct (take_read_e_spec k s)
        as [[out [l' [ev' [tk [E [E1 [E2 [E3 E4]]]]]]]]|[l' [ev' [tk [E [E1 E2]]]]]]; rewrite E.
      * left. eexists. eexists. split; [reflexivity|]. rewrite !reach_e_eq. unfold ci in *.
        cbn [with_tail bbuf_e lo_e evs_e sfuel_e stake_e]. rewrite Eb. cbn [app].
        repeat split; assumption.
      * right. eexists. split; [reflexivity|]. rewrite !reach_e_eq. unfold ci in *.
        cbn [with_tail bbuf_e lo_e evs_e sfuel_e stake_e]. rewrite Eb. cbn [app].
        split; [exact E1|]. split; [reflexivity|exact E2].
    + destruct (fill_buf_e_spec s) as [[s1 [E [F1 [F2 [F3 F4]]]]]|[s1 [E [F1 [F2 F3]]]]]; rewrite E.
      * left. eexists. eexists. split; [reflexivity|].
        destruct (consume_e_firstnN s1 k) as [C1 [C2 C3]].
        split; [rewrite <- F1; exact C1|]. split; [apply lenN_firstnN_le|]. split; [congruence|].
        split; [lia|].
        intros Hk Ho. apply F4. destruct (bbuf_e s1) as [|y bb] eqn:Ebb; [reflexivity|].
        exfalso. apply (firstnN_nonempty k (y :: bb) Hk); [discriminate|exact Ho].
      * right. exists s1. split; [reflexivity|]. repeat split; assumption.
  - left. rewrite <- Eb. eexists. eexists. split; [reflexivity|].
    destruct (consume_e_firstnN s k) as [C1 [C2 C3]].
    split; [exact C1|]. split; [apply lenN_firstnN_le|]. split; [exact C2|]. split; [lia|].
    intros Hk Ho. exfalso. rewrite Eb in Ho.
    apply (firstnN_nonempty k (x :: b) Hk); [discriminate|exact Ho].
Qed.

(* read_exact: the interruptions are retried away *)
Lemma read_exact_loop_e_spec fuel : forall n s acc, (N.to_nat n + ci s <= fuel)%nat ->
  match read_exact_loop_e fuel n s acc with
  | Some (x, s') => exists y, x = acc ++ y /\ reach_e s = y ++ reach_e s' /\ lenN y = n /\
                              sfuel_e s' = sfuel_e s /\ (ci s' <= ci s)%nat
  | None => lenN (reach_e s) < n
  end.
Proof.
  induction fuel as [|fuel IH]; intros n s acc Hf.
  - assert (n = 0) by lia. subst n. cbn [read_exact_loop_e N.eqb].
    exists []. rewrite app_nil_r. repeat split; (reflexivity || lia).
  - cbn [read_exact_loop_e]. destruct (N.eqb_spec n 0) as [E|E].
    + subst n. exists []. rewrite app_nil_r. repeat split; (reflexivity || lia).
    + destruct (buf_read_e_spec n s) as [[out [s1 [Ebr [B1 [B2 [B3 [B4 B5]]]]]]]|[s1 [Ebr [B1 [B2 B3]]]]]; rewrite Ebr.
      * destruct out as [|o out].
        -- rewrite B5 by (lia || reflexivity). rewrite lenN_nil. lia.
        -- remember (o :: out) as O eqn:EO.
           assert (HO : 0 < lenN O) by (apply lenN_pos; subst O; discriminate).
           specialize (IH (n - lenN O) s1 (acc ++ O)).
           assert (Hf' : (N.to_nat (n - lenN O) + ci s1 <= fuel)%nat) by lia.
           specialize (IH Hf'). rewrite EO. rewrite <- EO.
           destruct (read_exact_loop_e fuel (n - lenN O) s1 (acc ++ O)) as [[x s2]|].
           ++ destruct IH as [y [Y1 [Y2 [Y3 [Y4 Y5]]]]]. exists (O ++ y).
              split; [rewrite Y1, app_assoc; reflexivity|].
              split; [rewrite B1, Y2, app_assoc; reflexivity|].
              split; [rewrite lenN_app; lia|]. split; [congruence|lia].
           ++ rewrite B1, lenN_app. lia.
      * specialize (IH n s1 acc). assert (Hf' : (N.to_nat n + ci s1 <= fuel)%nat) by lia.
        specialize (IH Hf').
        destruct (read_exact_loop_e fuel n s1 acc) as [[x s2]|].
        -- destruct IH as [y [Y1 [Y2 [Y3 [Y4 Y5]]]]]. exists y.
           split; [exact Y1|]. split; [rewrite <- B1; exact Y2|]. split; [exact Y3|]. split; [congruence|lia].
        -- rewrite <- B1. exact IH.
Qed.

Lemma read_exact_e_spec n s :
  match read_exact_e n s with
  | Some (x, s') => reach_e s = x ++ reach_e s' /\ lenN x = n /\ sfuel_e s' = sfuel_e s /\ (ci s' <= ci s)%nat
  | None => lenN (reach_e s) < n
  end.
Proof.
  unfold read_exact_e. destruct (N.leb_spec n (lenN (firstnN n (bbuf_e s)))) as [L|L].
  - destruct (consume_e_firstnN s n) as [C1 [C2 C3]]. split; [exact C1|]. split; [|split; [exact C2|lia]].
    pose proof (lenN_firstnN_le n (bbuf_e s)). lia.
  - pose proof (read_exact_loop_e_spec (N.to_nat n + count_intr (evs_e s)) n s [] (le_n _)) as H.
    destruct (read_exact_loop_e (N.to_nat n + count_intr (evs_e s)) n s []) as [[x s']|]; [|exact H].
    destruct H as [y [Y1 [Y2 [Y3 [Y4 Y5]]]]]. cbn [app] in Y1. subst y. repeat split; assumption.
Qed.

(* read_until / read_line: what they deliver, in terms of the spec's [to_lf] *)
Lemma read_until_lf_e_spec fuel : forall s acc, (length (reach_e s) + ci s < fuel)%nat ->
  exists line s', read_until_lf_e fuel s acc = (acc ++ line, s') /\ sfuel_e s' = sfuel_e s /\
                  (ci s' <= ci s)%nat /\ line_of (reach_e s) line (reach_e s').
Proof.
  induction fuel as [|fuel IH]; intros s acc Hf; [lia|].
  cbn [read_until_lf_e].
  destruct (fill_buf_e_spec s) as [[s1 [E [F1 [F2 [F3 F4]]]]]|[s1 [E [F1 [F2 F3]]]]]; rewrite E.
  - assert (HU : reach_e s = bbuf_e s1 ++ tail3 (lo_e s1) (strip (evs_e s1)) (stake_e s1))
      by (rewrite <- F1; reflexivity).
    destruct (find_index (Byte.eqb x0a) (bbuf_e s1)) as [i|] eqn:Efi.
    + destruct (find_index_lf_some _ i (tail3 (lo_e s1) (strip (evs_e s1)) (stake_e s1)) Efi) as [T1 T2].
      exists (firstn (S i) (bbuf_e s1)), (consume_e (N.of_nat (S i)) s1).
      split; [reflexivity|]. split; [cbn [consume_e sfuel_e]; exact F2|]. split; [exact F3|].
      unfold line_of. rewrite HU, T1. split; [exact T2|].
      rewrite reach_e_eq. cbn [consume_e bbuf_e lo_e evs_e stake_e]. rewrite skipnN_of_nat. reflexivity.
    + apply find_index_lf_none in Efi.
      destruct (bbuf_e s1) as [|x b] eqn:Eb.
      * exists [], s1. rewrite app_nil_r. split; [reflexivity|]. split; [exact F2|]. split; [exact F3|].
        unfold line_of. rewrite (F4 eq_refl). cbn [to_lf]. split; [reflexivity|].
        rewrite F1. apply F4. reflexivity.
      * rewrite <- Eb in *. remember (bbuf_e s1) as A eqn:EA.
        assert (HA : A <> []) by (rewrite Eb; discriminate).
        set (s2 := consume_e (lenN A) s1).
        assert (H2 : reach_e s2 = tail3 (lo_e s1) (strip (evs_e s1)) (stake_e s1)).
        { unfold s2. rewrite reach_e_eq. cbn [consume_e bbuf_e lo_e evs_e stake_e]. rewrite <- EA.
          rewrite <- (app_nil_r A) at 2. rewrite skipnN_app_len. reflexivity. }
        assert (Hc2 : ci s2 = ci s1) by reflexivity.
        assert (Hlen : (length (reach_e s2) + ci s2 < fuel)%nat).
        { rewrite H2, Hc2. rewrite HU, app_length in Hf. destruct A; [congruence|]. cbn [length] in Hf. lia. }
        destruct (IH s2 (acc ++ A) Hlen) as [line [s' [R1 [R2 [R3 R4]]]]].
        exists (A ++ line), s'. rewrite Eb at 1. rewrite <- Eb.
        split; [rewrite R1, app_assoc; reflexivity|].
        split; [rewrite R2; unfold s2; cbn [consume_e sfuel_e]; exact F2|]. split; [lia|].
        unfold line_of in *. rewrite HU, (to_lf_app_nolf A _ Efi). rewrite H2 in R4.
        destruct (to_lf (tail3 (lo_e s1) (strip (evs_e s1)) (stake_e s1))) as [[bf r]|].
        -- destruct R4 as [R4 R5]. subst line. rewrite app_assoc. split; [reflexivity|exact R5].
        -- destruct R4 as [R4 R5]. subst line. split; [reflexivity|exact R5].
  - assert (Hlen : (length (reach_e s1) + ci s1 < fuel)%nat) by (rewrite F1; lia).
    destruct (IH s1 acc Hlen) as [line [s' [R1 [R2 [R3 R4]]]]].
    exists line, s'. split; [exact R1|]. split; [congruence|]. split; [lia|]. rewrite <- F1. exact R4.
Qed.

Lemma read_line_e_spec s : Bound_e s ->
  exists line s', read_line_e s = ((if utf8_valid line then inl line else inr EInvalidData), s') /\
                  sfuel_e s' = sfuel_e s /\ (ci s' <= ci s)%nat /\ line_of (reach_e s) line (reach_e s').
Proof.
  intros Hb. apply Bound_e_fuel in Hb. destruct Hb as [Hb _].
  destruct (read_until_lf_e_spec (sfuel_e s) s [] Hb) as [line [s' [R1 [R2 [R3 R4]]]]].
  exists line, s'. unfold read_line_e. rewrite R1. cbn [app].
  destruct (utf8_valid line); repeat split; assumption.
Qed.

(* ------------------------------------------------------------------ the chunked reader: abstract position *)
Definition plainc (c : chunked_e) : chunked :=
  {| c_src := plain_src (c_src_e c); c_state := c_state_e c; c_remaining := c_remaining_e c |}.
(* the position of the reader in the recogniser's run over the stripped input (Proofs/BodyBaseChunk.v) *)
Definition sd (c : chunked_e) (acc : bytes) : dres := st_dec (plainc c) acc.
Definition CBe (c : chunked_e) : Prop := Bound_e (c_src_e c).
Definition cic (c : chunked_e) : nat := ci (c_src_e c).

Lemma sd_eq c acc : sd c acc =
  match c_state_e c with
  | CSize => decU (reach_e (c_src_e c)) acc
  | CData => data_res decU (c_remaining_e c) (reach_e (c_src_e c)) acc
  | CCrlf => after_data decU (reach_e (c_src_e c)) acc
  | CTrailer => trailers_res (reach_e (c_src_e c)) acc (dect (reach_e (c_src_e c)))
  | CDone => Valid acc (reach_e (c_src_e c))
  end.
Proof. reflexivity. Qed.

Definition step_ok_e (D : dres) (r : rres chunked_e) (acc : bytes) (P : chunked_e -> Prop) : Prop :=
  D = Unspecified \/
  (exists e c', r = RErr e c' /\ exists w, D = Invalid w) \/
  (exists c', r = ROk [] c' /\ sd c' acc = D /\ CBe c' /\ P c').

Definition ready_e (c0 c' : chunked_e) : Prop := ready (plainc c') /\ (cic c' <= cic c0)%nat.

(* change of the starting position (same abstract position, no more interruptions ahead) *)
Lemma step_ok_e_trans D D' r acc c1 c0 : D = D' -> (cic c1 <= cic c0)%nat ->
  step_ok_e D' r acc (ready_e c1) -> step_ok_e D r acc (ready_e c0).
Proof.
  intros -> Hc [H|[H|[c' [A [B [C [R1 R2]]]]]]]; [left; exact H|right; left; exact H|].
  right. right. exists c'. split; [exact A|]. split; [exact B|]. split; [exact C|]. split; [exact R1|lia].
Qed.

Lemma step_ok_e_inv D r acc P : step_ok_e D r acc P -> D <> Unspecified ->
  (exists e c', r = RErr e c' /\ exists w, D = Invalid w) \/
  (exists c', r = ROk [] c' /\ sd c' acc = D /\ CBe c' /\ P c').
Proof. intros [H|[H|H]] HD; [contradiction|left; exact H|right; exact H]. Qed.

Lemma read_chunk_size_e_eq c :
  read_chunk_size_e c =
  let '(r, s') := read_line_e (c_src_e c) in
  match r with
  | inr e => RErr e {| c_src_e := s'; c_state_e := c_state_e c; c_remaining_e := c_remaining_e c |}
  | inl line =>
      match parse_size_line line with
      | inl e => RErr e {| c_src_e := s'; c_state_e := c_state_e c; c_remaining_e := c_remaining_e c |}
      | inr n => ROk [] {| c_src_e := s'; c_state_e := size_state n; c_remaining_e := n |}
      end
  end.
Proof.
  unfold read_chunk_size_e, parse_size_line, hd_split, size_state.
  destruct (read_line_e (c_src_e c)) as [r s']. destruct r as [line|e]; [|reflexivity].
  destruct line as [|b line]; [reflexivity|].
  destruct (strip_suffix_byte x0a (b :: line)) as [l1|]; [|reflexivity].
  cbv zeta.
  remember (match strip_suffix_byte x0d l1 with Some x => x | None => l1 end) as l2 eqn:El2.
  destruct (split_on x3b l2) as [|hx tl]; [reflexivity|].
  destruct hx as [|h0 hex]; [reflexivity|].
  destruct (forallb is_hexdigit (h0 :: hex)); [|reflexivity].
  destruct (parse_hex 0 (h0 :: hex)); reflexivity.
Qed.

Lemma rcs_e_err c L s' :
  read_line_e (c_src_e c) = ((if utf8_valid L then inl L else inr EInvalidData), s') ->
  (exists e, parse_size_line L = inl e) -> exists e c', read_chunk_size_e c = RErr e c'.
Proof.
  intros Hrl [e He]. rewrite read_chunk_size_e_eq, Hrl.
  destruct (utf8_valid L); [rewrite He|]; eexists; eexists; reflexivity.
Qed.

Lemma read_chunk_size_e_spec c acc : CBe c -> c_state_e c = CSize ->
  step_ok_e (sd c acc) (read_chunk_size_e c) acc
            (fun c' => (c_state_e c' = CTrailer \/ (c_state_e c' = CData /\ c_remaining_e c' <> 0)) /\
                       (cic c' <= cic c)%nat).
Proof.
  intros Hb Hst. rewrite sd_eq, Hst. rewrite decU_unfold.
  destruct (read_line_e_spec (c_src_e c) Hb) as [L [s' [Hrl [Hfu [Hci Hlo]]]]].
  pose proof (line_of_shrink _ _ _ Hlo) as Hsplit.
  assert (Hb' : Bound_e s') by (apply (Bound_e_split (c_src_e c) s' L); assumption).
  unfold line_of in Hlo.
  destruct (line_crlf (reach_e (c_src_e c))) as [[[line|] rest]|] eqn:Elc.
  - (* a CRLF-terminated line *)
    pose proof (line_crlf_some _ _ _ Elc) as Etl. rewrite Etl in Hlo. destruct Hlo as [HL Hrest].
    destruct (take_while hexdig line) as [sz ext] eqn:Etw.
    rewrite (dec_step_line decU _ acc line rest sz ext Elc Etw).
    destruct (nonempty sz && ext_ok ext) eqn:Eok.
    + unfold size_good.
      destruct (wf_ext ext) eqn:Ewf; cbn [negb]; [|left; reflexivity].
      pose proof (parse_size_line_good line sz ext Etw Eok) as Hps. rewrite <- HL in Hps.
      apply andb_true_iff in Eok. destruct Eok as [_ Eok].
      pose proof (size_line_utf8 line sz ext Etw Eok Ewf) as Hu. rewrite <- HL in Hu.
      destruct (hex_value sz <? 2 ^ 64) eqn:Elt; cbn [negb].
      * right. right. rewrite read_chunk_size_e_eq, Hrl, Hu, Hps.
        eexists. split; [reflexivity|]. rewrite sd_eq. unfold CBe, cic, size_state.
        cbn [c_src_e c_state_e c_remaining_e].
        rewrite Hrest. destruct (N.eqb_spec (hex_value sz) 0) as [E0|E0].
        -- split; [reflexivity|]. split; [exact Hb'|]. split; [left; reflexivity|exact Hci].
        -- split; [reflexivity|]. split; [exact Hb'|]. split; [right; split; [reflexivity|exact E0]|exact Hci].
      * right. left. destruct (rcs_e_err c L s' Hrl) as [e [c' He]]; [rewrite Hps; eexists; reflexivity|].
        exists e, c'. split; [exact He|]. eexists; reflexivity.
    + right. left. destruct (rcs_e_err c L s' Hrl) as [e [c' He]].
      * rewrite HL. exact (parse_size_line_bad line sz ext Etw Eok).
      * exists e, c'. split; [exact He|]. eexists; reflexivity.
  - (* bare LF *)
    left. unfold dec_step. rewrite Elc. reflexivity.
  - (* no LF at all *)
    right. left. pose proof (line_crlf_none _ Elc) as Etl. rewrite Etl in Hlo. destruct Hlo as [HL _].
    destruct (rcs_e_err c L s' Hrl) as [e [c' He]].
    + rewrite HL, (parse_size_line_nolf _ Etl). eexists; reflexivity.
    + exists e, c'. split; [exact He|]. exact (dec_step_noline decU _ acc Elc).
Qed.

(* trailers *)
Lemma trailer_loop_e_empty fuel : forall s, Bound_e s -> reach_e s = [] ->
  exists e s', trailer_loop_e fuel s = (Some e, s').
Proof.
  induction fuel as [|fuel IH]; intros s Hb Hs; [eexists; eexists; reflexivity|].
  cbn [trailer_loop_e]. destruct (read_line_e_spec s Hb) as [L [s' [Hrl [Hfu [Hci Hlo]]]]].
  unfold line_of in Hlo. rewrite Hs in Hlo. cbn [to_lf] in Hlo. destruct Hlo as [HL _]. subst L.
  rewrite Hrl. cbn [utf8_valid]. eexists; eexists; reflexivity.
Qed.

Lemma trailer_loop_e_spec fuel : forall s, Bound_e s -> (length (reach_e s) < fuel)%nat ->
  match dect (reach_e s) with
  | None => exists e s', trailer_loop_e fuel s = (Some e, s')
  | Some None => True
  | Some (Some rest) => exists s', trailer_loop_e fuel s = (None, s') /\ reach_e s' = rest /\ Bound_e s' /\
                                   (ci s' <= ci s)%nat
  end.
Proof.
  induction fuel as [|fuel IH]; intros s Hb Hf; [lia|].
  rewrite dect_unfold. unfold dect_step. cbn [trailer_loop_e].
  destruct (read_line_e_spec s Hb) as [L [s' [Hrl [Hfu [Hci Hlo]]]]].
  pose proof (line_of_shrink _ _ _ Hlo) as Hsplit.
  assert (Hb' : Bound_e s') by (apply (Bound_e_split s s' L); assumption).
  unfold line_of in Hlo. rewrite Hrl.
  destruct (line_crlf (reach_e s)) as [[[line|] rest]|] eqn:Elc.
  - pose proof (line_crlf_some _ _ _ Elc) as Etl. rewrite Etl in Hlo. destruct Hlo as [HL Hrest].
    destruct line as [|t0 t].
    + subst L. cbn [app utf8_valid N.ltb]. cbn. exists s'.
      split; [reflexivity|]. split; [exact Hrest|]. split; [exact Hb'|exact Hci].
    + destruct (forallb text_byte (t0 :: t)) eqn:Etx; [|exact I].
      assert (Hu : utf8_valid L = true).
      { subst L. apply utf8_ascii. rewrite !forallb_app.
        rewrite (forallb_impl _ _ _ text_ascii Etx). reflexivity. }
      rewrite Hu.
      assert (HL2 : L = t0 :: (t ++ [x0d]) ++ [x0a]) by (subst L; reflexivity).
      assert (Hnb : bytes_eqb L [x0d; x0a] || bytes_eqb L [x0a] = false).
      { apply orb_false_iff. split.
        - destruct (bytes_eqb L [x0d; x0a]) eqn:E; [|reflexivity]. apply bytes_eqb_eq in E.
          rewrite E in HL2. inversion HL2 as [[H1 H2]]. apply (f_equal (@length byte)) in H2.
          rewrite !app_length in H2. cbn [length] in H2. lia.
        - destruct (bytes_eqb L [x0a]) eqn:E; [|reflexivity]. apply bytes_eqb_eq in E.
          rewrite E in HL2. inversion HL2 as [[H1 H2]]. apply (f_equal (@length byte)) in H2.
          rewrite !app_length in H2. cbn [length] in H2. lia. }
      rewrite HL2. rewrite <- HL2. rewrite Hnb.
      assert (Hlen : (length (reach_e s') < fuel)%nat).
      { rewrite Hsplit, app_length, HL2 in Hf. cbn [length] in Hf. lia. }
      specialize (IH s' Hb' Hlen). rewrite Hrest in IH.
      destruct (dect rest) as [[r2|]|]; [|exact IH|exact IH].
      destruct IH as [s2 [I1 [I2 [I3 I4]]]]. exists s2.
      split; [exact I1|]. split; [exact I2|]. split; [exact I3|lia].
  - exact I.
  - pose proof (line_crlf_none _ Elc) as Etl. rewrite Etl in Hlo. destruct Hlo as [HL Hrest].
    destruct (utf8_valid L); [|eexists; eexists; reflexivity].
    destruct L as [|l0 L]; [eexists; eexists; reflexivity|].
    assert (Hnb : bytes_eqb (l0 :: L) [x0d; x0a] || bytes_eqb (l0 :: L) [x0a] = false).
    { apply orb_false_iff. split.
      - destruct (bytes_eqb (l0 :: L) [x0d; x0a]) eqn:E; [|reflexivity]. apply bytes_eqb_eq in E.
        rewrite <- HL, E in Etl. discriminate.
      - destruct (bytes_eqb (l0 :: L) [x0a]) eqn:E; [|reflexivity]. apply bytes_eqb_eq in E.
        rewrite <- HL, E in Etl. discriminate. }
    rewrite Hnb. apply trailer_loop_e_empty; assumption.
Qed.

(* advance: never interrupted (read_line and read_exact retry) *)
Lemma rank_plainc c : rank (plainc c) =
  match c_state_e c with
  | CData => if N.eqb (c_remaining_e c) 0 then 6 else 1
  | CCrlf => 5 | CSize => 4 | CTrailer => 2 | CDone => 1
  end%nat.
Proof. reflexivity. Qed.

Lemma advance_e_spec fuel : forall c acc, (rank (plainc c) <= fuel)%nat -> CBe c ->
  step_ok_e (sd c acc) (advance_e fuel c) acc (ready_e c).
Proof.
  induction fuel as [|fuel IH]; intros c acc Hr Hb.
  - exfalso. rewrite rank_plainc in Hr. destruct (c_state_e c); try lia. destruct (c_remaining_e c =? 0); lia.
  - cbn [advance_e]. rewrite rank_plainc in Hr. destruct (c_state_e c) eqn:Est.
    + (* CSize *)
      destruct (read_chunk_size_e_spec c acc Hb Est)
        as [HU|[[e [c' [He [w Hw]]]]|[c' [Hc' [Hd [Hb' [Hst' Hci']]]]]]].
      * left. exact HU.
      * right. left. rewrite He. exists e, c'. split; [reflexivity|]. exists w. exact Hw.
      * rewrite Hc'. apply (step_ok_e_trans _ (sd c' acc) _ _ c' c); [symmetry; exact Hd|exact Hci'|].
        apply IH; [|exact Hb']. rewrite rank_plainc.
        destruct Hst' as [H1|[H1 H2]]; rewrite H1.
        -- lia.
        -- destruct (N.eqb_spec (c_remaining_e c') 0); [contradiction|lia].
    + (* CData *)
      destruct (N.eqb_spec (c_remaining_e c) 0) as [E0|E0].
      * set (c1 := {| c_src_e := c_src_e c; c_state_e := CCrlf; c_remaining_e := 0 |}).
        apply (step_ok_e_trans _ (sd c1 acc) _ _ c1 c).
        -- rewrite !sd_eq. unfold c1. cbn [c_src_e c_state_e c_remaining_e]. rewrite Est.
           unfold data_res. rewrite E0, take_n_0, app_nil_r. reflexivity.
        -- unfold cic, c1. cbn [c_src_e]. lia.
        -- apply IH; [|exact Hb]. rewrite rank_plainc. unfold c1. cbn [c_state_e]. lia.
      * right. right. exists c. split; [reflexivity|]. split; [reflexivity|]. split; [exact Hb|].
        split; [|lia]. right. split; assumption.
    + (* CCrlf *)
      pose proof (read_exact_e_spec 2 (c_src_e c)) as Hre.
      assert (HD : sd c acc = after_data decU (reach_e (c_src_e c)) acc) by (rewrite sd_eq, Est; reflexivity).
      destruct (read_exact_e 2 (c_src_e c)) as [[crlf s']|].
      * destruct Hre as [R1 [R2 [R3 R4]]].
        destruct (bytes_eqb crlf [x0d; x0a]) eqn:Ecr.
        -- apply bytes_eqb_eq in Ecr. subst crlf.
           set (c1 := {| c_src_e := s'; c_state_e := CSize; c_remaining_e := c_remaining_e c |}).
           apply (step_ok_e_trans _ (sd c1 acc) _ _ c1 c).
           ++ rewrite HD, R1. rewrite sd_eq. unfold c1. cbn [c_src_e c_state_e app after_data]. reflexivity.
           ++ unfold cic, c1. cbn [c_src_e]. exact R4.
           ++ apply IH.
              ** rewrite rank_plainc. unfold c1. cbn [c_state_e]. lia.
              ** unfold CBe, c1. cbn [c_src_e]. apply (Bound_e_split (c_src_e c) s' [x0d; x0a]); assumption.
        -- right. left. eexists. eexists. split; [reflexivity|]. rewrite HD.
           destruct (after_data_cases decU (reach_e (c_src_e c)) acc) as [[r [E1 E2]]|[N1 [w E2]]].
           ++ exfalso. rewrite E1 in R1. destruct crlf as [|a [|b [|c0 t]]];
                rewrite ?lenN_cons, ?lenN_nil in R2; try lia.
              cbn [app] in R1. inversion R1. subst a b.
              cbn [bytes_eqb] in Ecr. rewrite !byte_eqb_refl in Ecr. discriminate.
           ++ exists w. exact E2.
      * right. left. eexists. eexists. split; [reflexivity|]. rewrite HD.
        destruct (after_data_cases decU (reach_e (c_src_e c)) acc) as [[r [E1 E2]]|[N1 [w E2]]].
        -- exfalso. rewrite E1, !lenN_cons in Hre. lia.
        -- exists w. exact E2.
    + (* CTrailer *)
      assert (HD : sd c acc = trailers_res (reach_e (c_src_e c)) acc (dect (reach_e (c_src_e c))))
        by (rewrite sd_eq, Est; reflexivity).
      assert (Hfu : (length (reach_e (c_src_e c)) < sfuel_e (c_src_e c))%nat)
        by (pose proof (Bound_e_fuel _ Hb); lia).
      pose proof (trailer_loop_e_spec (sfuel_e (c_src_e c)) (c_src_e c) Hb Hfu) as Ht.
      destruct (dect (reach_e (c_src_e c))) as [[rest|]|].
      * destruct Ht as [s' [T1 [T2 [T3 T4]]]]. rewrite T1.
        set (c1 := {| c_src_e := s'; c_state_e := CDone; c_remaining_e := c_remaining_e c |}).
        apply (step_ok_e_trans _ (sd c1 acc) _ _ c1 c).
        -- rewrite HD. rewrite sd_eq. unfold c1. cbn [c_src_e c_state_e trailers_res]. rewrite T2. reflexivity.
        -- unfold cic, c1. cbn [c_src_e]. exact T4.
        -- apply IH; [|exact T3]. rewrite rank_plainc. unfold c1. cbn [c_state_e]. lia.
      * left. exact HD.
      * destruct Ht as [e [s' T1]]. rewrite T1. right. left. eexists. eexists.
        split; [reflexivity|]. exists Truncated. exact HD.
    + (* CDone *)
      right. right. exists c. split; [reflexivity|]. split; [reflexivity|]. split; [exact Hb|].
      split; [|lia]. left. exact Est.
Qed.

Lemma advance_e_ok c acc : CBe c -> step_ok_e (sd c acc) (advance_e (adv_fuel_e c) c) acc (ready_e c).
Proof.
  intros Hb. apply advance_e_spec; [|exact Hb].
  pose proof (rank_le (plainc c)). pose proof (Bound_e_fuel _ Hb) as [_ H12]. unfold adv_fuel_e. lia.
Qed.

(* ------------------------------------------------------------------ driver steps *)
Lemma read_all_e_more b k sizes acc out b' : body_read_e k b = EOk out b' -> out <> [] ->
  read_all_e b (k :: sizes) acc = read_all_e b' sizes (acc ++ out).
Proof. intros H Hne. cbn [read_all_e]. rewrite H. destruct out; [congruence|reflexivity]. Qed.

Lemma read_all_e_eof b k sizes acc b' : body_read_e k b = EOk [] b' ->
  read_all_e b (k :: sizes) acc = (acc, AtEof, b').
Proof. intros H. cbn [read_all_e]. rewrite H. reflexivity. Qed.

Lemma read_all_e_err b k sizes acc e b' : body_read_e k b = EErr e b' ->
  read_all_e b (k :: sizes) acc = (acc, Failed e, b').
Proof. intros H. cbn [read_all_e]. rewrite H. reflexivity. Qed.

Lemma read_all_e_intr b k sizes acc b' : body_read_e k b = EIntr b' ->
  read_all_e b (k :: sizes) acc = read_all_e b' sizes acc.
Proof. intros H. cbn [read_all_e]. rewrite H. reflexivity. Qed.

Lemma bufread_all_e_more b a amts acc avail b' : body_fill_buf_e b = EOk avail b' -> avail <> [] ->
  bufread_all_e b (a :: amts) acc =
  bufread_all_e (body_consume_e (lenN (firstnN a avail)) b') amts (acc ++ firstnN a avail).
Proof. intros H Hne. cbn [bufread_all_e]. rewrite H. destruct avail; [congruence|reflexivity]. Qed.

Lemma bufread_all_e_eof b a amts acc b' : body_fill_buf_e b = EOk [] b' ->
  bufread_all_e b (a :: amts) acc = (acc, AtEof, b').
Proof. intros H. cbn [bufread_all_e]. rewrite H. reflexivity. Qed.

Lemma bufread_all_e_err b a amts acc e b' : body_fill_buf_e b = EErr e b' ->
  bufread_all_e b (a :: amts) acc = (acc, Failed e, b').
Proof. intros H. cbn [bufread_all_e]. rewrite H. reflexivity. Qed.

Lemma bufread_all_e_intr b a amts acc b' : body_fill_buf_e b = EIntr b' ->
  bufread_all_e b (a :: amts) acc = bufread_all_e b' amts acc.
Proof. intros H. cbn [bufread_all_e]. rewrite H. reflexivity. Qed.

(* ------------------------------------------------------------------ Read face, fixed length *)
Lemma fixed_read_e_done k r : f_remaining_e r = 0 -> fixed_read_e k r = EOk [] r.
Proof. intros H. unfold fixed_read_e. rewrite H. reflexivity. Qed.

(* one FixedReader::read with a non-empty buffer, body not finished: truncation, progress, or an interruption *)
Lemma fixed_read_e_cases k r : 0 < k -> f_remaining_e r <> 0 ->
  (exists s', fixed_read_e k r = EErr EUnexpectedEof {| f_src_e := s'; f_remaining_e := f_remaining_e r |} /\
              reach_e (f_src_e r) = []) \/
  (exists out s', out <> [] /\
      fixed_read_e k r = EOk out {| f_src_e := s'; f_remaining_e := f_remaining_e r - lenN out |} /\
      reach_e (f_src_e r) = out ++ reach_e s' /\ lenN out <= f_remaining_e r /\ (ci s' <= ci (f_src_e r))%nat) \/
  (exists s', fixed_read_e k r = EIntr {| f_src_e := s'; f_remaining_e := f_remaining_e r |} /\
              reach_e s' = reach_e (f_src_e r) /\ (ci s' < ci (f_src_e r))%nat).
Proof.
  intros Hk Hr. unfold fixed_read_e.
  destruct (N.eqb_spec (f_remaining_e r) 0) as [E|E]; [contradiction|].
  destruct (N.eqb_spec k 0) as [Ek|Ek]; [lia|]. cbn [orb]. cbv zeta.
  destruct (buf_read_e_spec (N.min (f_remaining_e r) k) (f_src_e r))
    as [[out [s' [Ebr [B1 [B2 [B3 [B4 B5]]]]]]]|[s' [Ebr [B1 [B2 B3]]]]]; rewrite Ebr.
  - destruct out as [|o out].
    + left. exists s'. split; [reflexivity|]. apply B5; [lia|reflexivity].
    + right. left. exists (o :: out), s'. split; [discriminate|]. split; [reflexivity|].
      split; [exact B1|]. split; [lia|exact B4].
  - right. right. exists s'. split; [reflexivity|]. split; [exact B1|exact B3].
Qed.

Lemma fixed_read_all_e_valid : forall sizes r acc d rest,
  take_n (f_remaining_e r) (reach_e (f_src_e r)) = Some (d, rest) ->
  Forall (fun k => 0 < k) sizes -> (length d + ci (f_src_e r) < length sizes)%nat ->
  fst (read_all_e (BFixed_e r) sizes acc) = (acc ++ d, AtEof).
Proof.
  induction sizes as [|k sizes IH]; intros r acc d rest Ht Hpos Hlen; [cbn [length] in Hlen; lia|].
  inversion Hpos as [|k' sz' Hk Hpos']. subst k' sz'.
  destruct (N.eq_dec (f_remaining_e r) 0) as [E|E].
  - rewrite (read_all_e_eof _ k sizes acc (BFixed_e r)); [|cbn [body_read_e]; rewrite (fixed_read_e_done k r E); reflexivity].
    rewrite E, take_n_0 in Ht. inversion Ht. subst d rest. cbn [fst]. rewrite app_nil_r. reflexivity.
  - destruct (fixed_read_e_cases k r Hk E)
      as [[s' [Hf Hnil]]|[[out [s' [Hne [Hf [B1 [B2 B3]]]]]]|[s' [Hf [B1 B3]]]]].
    + rewrite Hnil, take_n_nil in Ht by exact E. discriminate.
    + rewrite (read_all_e_more _ k sizes acc out (BFixed_e {| f_src_e := s'; f_remaining_e := f_remaining_e r - lenN out |}));
        [|cbn [body_read_e]; rewrite Hf; reflexivity|exact Hne].
      rewrite B1, take_n_app in Ht by exact B2.
      destruct (take_n (f_remaining_e r - lenN out) (reach_e s')) as [[d' a]|] eqn:Et; [|discriminate].
      inversion Ht. subst d a.
      rewrite (IH {| f_src_e := s'; f_remaining_e := f_remaining_e r - lenN out |} (acc ++ out) d' rest).
      * rewrite app_assoc. reflexivity.
      * exact Et.
      * exact Hpos'.
      * cbn [f_src_e]. rewrite app_length in Hlen. cbn [length] in Hlen.
        destruct out; [congruence|]. cbn [length] in Hlen. lia.
    + rewrite (read_all_e_intr _ k sizes acc (BFixed_e {| f_src_e := s'; f_remaining_e := f_remaining_e r |}));
        [|cbn [body_read_e]; rewrite Hf; reflexivity].
      apply (IH _ acc d rest).
      * cbn [f_src_e f_remaining_e]. rewrite B1. exact Ht.
      * exact Hpos'.
      * cbn [f_src_e]. cbn [length] in Hlen. lia.
Qed.

Lemma ci_mk_take lo evs n : ci (mk_src_take_e lo evs n) = count_intr evs.
Proof. reflexivity. Qed.
Lemma ci_mk lo evs : ci (mk_src_e lo evs) = count_intr evs.
Proof. reflexivity. Qed.

Theorem intr_fixed_read_valid : forall lo evs sizes n p rest,
  spec_fixed n (lo ++ concat (strip evs)) = Valid p rest -> Forall (fun k => 0 < k) sizes ->
  (length p + 1 * count_intr evs < length sizes)%nat ->
  fst (read_all_e (new_fixed_e lo evs n) sizes []) = (p, AtEof).
Proof.
  intros lo evs sizes n p rest Hs Hpos Hlen. unfold spec_fixed in Hs.
  destruct (take_n n (lo ++ concat (strip evs))) as [[d a]|] eqn:Et; [|discriminate]. inversion Hs. subst d a.
  unfold new_fixed_e. rewrite (fixed_read_all_e_valid sizes _ [] p []); [reflexivity| |exact Hpos|].
  - cbn [f_remaining_e f_src_e]. rewrite reach_e_mk_take. exact (take_n_firstnN _ _ _ _ Et).
  - cbn [f_src_e]. rewrite ci_mk_take. lia.
Qed.
Print Assumptions intr_fixed_read_valid.

Lemma fixed_read_all_e_invalid : forall sizes r acc,
  lenN (reach_e (f_src_e r)) < f_remaining_e r -> Forall (fun k => 0 < k) sizes ->
  snd (fst (read_all_e (BFixed_e r) sizes acc)) <> AtEof.
Proof.
  induction sizes as [|k sizes IH]; intros r acc Hlt Hpos; [cbn; discriminate|].
  inversion Hpos as [|k' sz' Hk Hpos']. subst k' sz'.
  assert (E : f_remaining_e r <> 0) by lia.
  destruct (fixed_read_e_cases k r Hk E)
    as [[s' [Hf Hnil]]|[[out [s' [Hne [Hf [B1 [B2 B3]]]]]]|[s' [Hf [B1 B3]]]]].
  - rewrite (read_all_e_err _ k sizes acc EUnexpectedEof (BFixed_e {| f_src_e := s'; f_remaining_e := f_remaining_e r |}));
      [cbn [fst snd]; discriminate|cbn [body_read_e]; rewrite Hf; reflexivity].
  - rewrite (read_all_e_more _ k sizes acc out (BFixed_e {| f_src_e := s'; f_remaining_e := f_remaining_e r - lenN out |}));
      [|cbn [body_read_e]; rewrite Hf; reflexivity|exact Hne].
    apply IH; [|exact Hpos']. cbn [f_src_e f_remaining_e]. rewrite B1, lenN_app in Hlt. lia.
  - rewrite (read_all_e_intr _ k sizes acc (BFixed_e {| f_src_e := s'; f_remaining_e := f_remaining_e r |}));
      [|cbn [body_read_e]; rewrite Hf; reflexivity].
    apply IH; [|exact Hpos']. cbn [f_src_e f_remaining_e]. rewrite B1. exact Hlt.
Qed.

Theorem intr_fixed_read_invalid : forall lo evs sizes n w,
  spec_fixed n (lo ++ concat (strip evs)) = Invalid w -> Forall (fun k => 0 < k) sizes ->
  snd (fst (read_all_e (new_fixed_e lo evs n) sizes [])) <> AtEof.
Proof.
  intros lo evs sizes n w Hs Hpos. unfold spec_fixed in Hs.
  destruct (take_n n (lo ++ concat (strip evs))) as [[d a]|] eqn:Et; [discriminate|].
  apply take_n_none in Et. unfold new_fixed_e. apply fixed_read_all_e_invalid; [|exact Hpos].
  cbn [f_remaining_e f_src_e]. rewrite reach_e_mk_take.
  pose proof (lenN_firstnN_le_len n (lo ++ concat (strip evs))) as Hle. lia.
Qed.
Print Assumptions intr_fixed_read_invalid.

(* ------------------------------------------------------------------ Read face, chunked *)
Lemma chunked_loop_e_spec fuel : forall k c written acc D, 0 < k -> CBe c ->
  sd c acc = D -> D <> Unspecified ->
  (exists e c', chunked_read_loop_e fuel k c written = EErr e c' /\ exists w, D = Invalid w) \/
  (exists more c', chunked_read_loop_e fuel k c written = EOk (written ++ more) c' /\
                   sd c' (acc ++ more) = D /\ CBe c' /\ (cic c' <= cic c)%nat /\
                   (more = [] -> fuel = 0%nat \/ c_state_e c' = CDone \/ written <> [])) \/
  (exists c', chunked_read_loop_e fuel k c written = EIntr c' /\ written = [] /\
              sd c' acc = D /\ CBe c' /\ (cic c' < cic c)%nat).
Proof.
  induction fuel as [|fuel IH]; intros k c written acc D Hk Hb HD HU.
  - right. left. exists [], c. rewrite !app_nil_r. cbn [chunked_read_loop_e].
    split; [reflexivity|]. split; [exact HD|]. split; [exact Hb|]. split; [lia|]. intros _. left. reflexivity.
  - cbn [chunked_read_loop_e].
    pose proof (advance_e_ok c acc Hb) as Hadv. rewrite HD in Hadv.
    destruct (step_ok_e_inv _ _ _ _ Hadv HU) as [[e [c' [He Hw]]]|[c1 [Hc1 [Hd1 [Hb1 [Hr1 Hci1]]]]]].
    + left. rewrite He. exists e, c'. split; [reflexivity|exact Hw].
    + rewrite Hc1. destruct Hr1 as [Hdone|[Hdata Hrem]].
      * change (c_state_e c1 = CDone) in Hdone. rewrite Hdone. right. left. exists [], c1. rewrite !app_nil_r.
        split; [reflexivity|]. split; [exact Hd1|]. split; [exact Hb1|]. split; [exact Hci1|].
        intros _. right. left. exact Hdone.
      * change (c_state_e c1 = CData) in Hdata. change (c_remaining_e c1 <> 0) in Hrem.
        rewrite Hdata. destruct (N.eqb_spec k 0) as [Ek|Ek]; [lia|]. cbv zeta.
        destruct (buf_read_e_spec (N.min (c_remaining_e c1) k) (c_src_e c1))
          as [[out [s' [Ebr [B1 [B2 [B3 [B4 B5]]]]]]]|[s' [Ebr [B1 [B2 B3]]]]]; rewrite Ebr.
        -- destruct out as [|o out].
           ++ left. eexists. eexists. split; [reflexivity|]. exists Truncated.
              rewrite <- Hd1. unfold sd. apply data_eof; [exact Hdata|exact Hrem|].
              apply B5; [lia|reflexivity].
           ++ remember (o :: out) as O eqn:EO.
              set (c2 := {| c_src_e := s'; c_state_e := CData; c_remaining_e := c_remaining_e c1 - lenN O |}).
              assert (Hd2 : sd c2 (acc ++ O) = D).
              { rewrite <- Hd1. unfold sd. apply data_step; [exact Hdata|reflexivity|exact B1| |reflexivity].
                cbn [plainc c_remaining]. lia. }
              assert (Hb2 : CBe c2).
              { unfold CBe, c2. cbn [c_src_e]. apply (Bound_e_split (c_src_e c1) s' O); assumption. }
              assert (Hc2 : (cic c2 <= cic c)%nat) by (unfold cic, c2 in *; cbn [c_src_e]; lia).
              assert (HO : O <> []) by (subst O; discriminate).
              rewrite EO. rewrite <- EO. cbn [c_remaining_e].
              destruct ((c_remaining_e c2 =? 0) || (k - lenN O =? 0)) eqn:Estop.
              ** right. left. exists O, c2. split; [reflexivity|]. split; [exact Hd2|]. split; [exact Hb2|].
                 split; [exact Hc2|]. intros HO'. contradiction.
              ** apply orb_false_iff in Estop. destruct Estop as [_ Ek2]. apply N.eqb_neq in Ek2.
                 fold c2.
                 destruct (IH (k - lenN O) c2 (written ++ O) (acc ++ O) D ltac:(lia) Hb2 Hd2 HU)
                   as [[e [c' [He Hw]]]|[[more [c' [Hm [Hd' [Hb' [Hc' Hm']]]]]]|[c' [Hm [Hw' _]]]]].
                 --- left. exists e, c'. split; [exact He|exact Hw].
                 --- right. left. exists (O ++ more), c'. rewrite !app_assoc.
                     split; [exact Hm|]. split; [exact Hd'|]. split; [exact Hb'|]. split; [lia|].
                     intros Hnil. exfalso. destruct O; [congruence|discriminate].
                 --- exfalso. apply app_eq_nil in Hw'. destruct Hw' as [_ Hw']. contradiction.
        -- (* the inner read is interrupted *)
           set (c2 := {| c_src_e := s'; c_state_e := CData; c_remaining_e := c_remaining_e c1 |}).
           assert (Hd2 : sd c2 acc = D).
           { rewrite <- Hd1. rewrite !sd_eq. unfold c2. cbn [c_src_e c_state_e c_remaining_e].
             rewrite Hdata, B1. reflexivity. }
           assert (Hb2 : CBe c2).
           { unfold CBe, c2. cbn [c_src_e].
             apply (Bound_e_shrink (c_src_e c1)); [exact B2|rewrite B1; lia|lia|exact Hb1]. }
           assert (Hc2 : (cic c2 < cic c)%nat) by (unfold cic, c2 in *; cbn [c_src_e]; lia).
           destruct written as [|w0 wr].
           ++ right. right. exists c2. split; [reflexivity|]. split; [reflexivity|].
              split; [exact Hd2|]. split; [exact Hb2|exact Hc2].
           ++ right. left. exists [], c2. rewrite !app_nil_r.
              split; [reflexivity|]. split; [exact Hd2|]. split; [exact Hb2|]. split; [lia|].
              intros _. right. right. discriminate.
Qed.

(* one ChunkedReader::read: an error on an invalid encoding, or progress, or an interruption that loses nothing *)
Lemma chunked_read_e_spec k c acc D : 0 < k -> CBe c -> sd c acc = D -> D <> Unspecified ->
  (exists e c', chunked_read_e k c = EErr e c' /\ exists w, D = Invalid w) \/
  (exists out c', chunked_read_e k c = EOk out c' /\ sd c' (acc ++ out) = D /\ CBe c' /\
                  (cic c' <= cic c)%nat /\ (out = [] -> c_state_e c' = CDone)) \/
  (exists c', chunked_read_e k c = EIntr c' /\ sd c' acc = D /\ CBe c' /\ (cic c' < cic c)%nat).
Proof.
  intros Hk Hb HD HU. unfold chunked_read_e.
  destruct (chunked_loop_e_spec (sfuel_e (c_src_e c)) k c [] acc D Hk Hb HD HU)
    as [H|[[more [c' [Hm [Hd' [Hb' [Hc' Hm']]]]]]|[c' [Hm [_ [Hd' [Hb' Hc']]]]]]]; [left; exact H| |].
  - right. left. exists more, c'. cbn [app] in Hm. split; [exact Hm|]. split; [exact Hd'|]. split; [exact Hb'|].
    split; [exact Hc'|].
    intros Hnil. destruct (Hm' Hnil) as [H0|[H0|H0]]; [|exact H0|congruence].
    exfalso. pose proof (Bound_e_fuel _ Hb) as [_ H12]. lia.
  - right. right. exists c'. split; [exact Hm|]. split; [exact Hd'|]. split; [exact Hb'|exact Hc'].
Qed.

Lemma chunked_read_all_e_valid : forall sizes c acc p rest q, CBe c ->
  sd c acc = Valid p rest -> p = acc ++ q ->
  Forall (fun k => 0 < k) sizes -> (length q + cic c < length sizes)%nat ->
  fst (read_all_e (BChunked_e c) sizes acc) = (p, AtEof).
Proof.
  induction sizes as [|k sizes IH]; intros c acc p rest q Hb HD Hp Hpos Hlen; [cbn [length] in Hlen; lia|].
  inversion Hpos as [|k' sz' Hk Hpos']. subst k' sz'.
  destruct (chunked_read_e_spec k c acc _ Hk Hb HD ltac:(discriminate))
    as [[e [c' [He [w Hw]]]]|[[out [c' [Ho [Hd' [Hb' [Hc' Hnil]]]]]]|[c' [Ho [Hd' [Hb' Hc']]]]]]; [discriminate| |].
  - destruct out as [|o out].
    + rewrite (read_all_e_eof _ k sizes acc (BChunked_e c')); [|cbn [body_read_e]; rewrite Ho; reflexivity].
      unfold sd in Hd'. rewrite (done_dec (plainc c') _ (Hnil eq_refl)), app_nil_r in Hd'. inversion Hd'. reflexivity.
    + remember (o :: out) as O eqn:EO.
      rewrite (read_all_e_more _ k sizes acc O (BChunked_e c'));
        [|cbn [body_read_e]; rewrite Ho; reflexivity|subst O; discriminate].
      destruct (st_dec_prefix _ _ _ _ Hd') as [q' Hq'].
      apply (IH c' (acc ++ O) p rest q' Hb' Hd' Hq' Hpos').
      assert (Hqq : q = O ++ q').
      { apply (app_inv_head acc). rewrite <- Hp, Hq', app_assoc. reflexivity. }
      rewrite Hqq, app_length in Hlen. subst O. cbn [length] in Hlen. lia.
  - rewrite (read_all_e_intr _ k sizes acc (BChunked_e c')); [|cbn [body_read_e]; rewrite Ho; reflexivity].
    apply (IH c' acc p rest q Hb' Hd' Hp Hpos'). cbn [length] in Hlen. lia.
Qed.

Lemma sd_new lo evs acc :
  sd {| c_src_e := mk_src_e lo evs; c_state_e := CSize; c_remaining_e := 0 |} acc =
  decU (lo ++ concat (strip evs)) acc.
Proof. reflexivity. Qed.

Theorem intr_chunked_read_valid : forall lo evs sizes p rest,
  spec_decode (lo ++ concat (strip evs)) = Valid p rest -> Forall (fun k => 0 < k) sizes ->
  (length p + 1 * count_intr evs < length sizes)%nat ->
  fst (read_all_e (new_chunked_e lo evs) sizes []) = (p, AtEof).
Proof.
  intros lo evs sizes p rest Hs Hpos Hlen. unfold new_chunked_e.
  apply (chunked_read_all_e_valid sizes _ [] p rest p).
  - apply Bound_e_mk.
  - exact Hs.
  - reflexivity.
  - exact Hpos.
  - unfold cic. cbn [c_src_e]. rewrite ci_mk. lia.
Qed.
Print Assumptions intr_chunked_read_valid.

Lemma chunked_read_all_e_invalid : forall sizes c acc w, CBe c ->
  sd c acc = Invalid w -> Forall (fun k => 0 < k) sizes ->
  snd (fst (read_all_e (BChunked_e c) sizes acc)) <> AtEof.
Proof.
  induction sizes as [|k sizes IH]; intros c acc w Hb HD Hpos; [cbn; discriminate|].
  inversion Hpos as [|k' sz' Hk Hpos']. subst k' sz'.
  destruct (chunked_read_e_spec k c acc _ Hk Hb HD ltac:(discriminate))
    as [[e [c' [He _]]]|[[out [c' [Ho [Hd' [Hb' [Hc' Hnil]]]]]]|[c' [Ho [Hd' [Hb' Hc']]]]]].
  - rewrite (read_all_e_err _ k sizes acc e (BChunked_e c')); [|cbn [body_read_e]; rewrite He; reflexivity].
    cbn [fst snd]. discriminate.
  - destruct out as [|o out].
    + exfalso. unfold sd in Hd'. rewrite (done_dec (plainc c') _ (Hnil eq_refl)) in Hd'. discriminate.
    + remember (o :: out) as O eqn:EO.
      rewrite (read_all_e_more _ k sizes acc O (BChunked_e c'));
        [|cbn [body_read_e]; rewrite Ho; reflexivity|subst O; discriminate].
      exact (IH c' (acc ++ O) w Hb' Hd' Hpos').
  - rewrite (read_all_e_intr _ k sizes acc (BChunked_e c')); [|cbn [body_read_e]; rewrite Ho; reflexivity].
    exact (IH c' acc w Hb' Hd' Hpos').
Qed.

Theorem intr_chunked_read_invalid : forall lo evs sizes w,
  spec_decode (lo ++ concat (strip evs)) = Invalid w -> Forall (fun k => 0 < k) sizes ->
  snd (fst (read_all_e (new_chunked_e lo evs) sizes [])) <> AtEof.
Proof.
  intros lo evs sizes w Hs Hpos. unfold new_chunked_e.
  apply (chunked_read_all_e_invalid sizes _ [] w); [apply Bound_e_mk|exact Hs|exact Hpos].
Qed.
Print Assumptions intr_chunked_read_invalid.

(* ------------------------------------------------------------------ BufRead face, fixed length *)
Lemma fixed_fill_buf_e_cases r : f_remaining_e r <> 0 ->
  (exists s', fixed_fill_buf_e r = EErr EUnexpectedEof {| f_src_e := s'; f_remaining_e := f_remaining_e r |} /\
              reach_e (f_src_e r) = []) \/
  (exists s', bbuf_e s' <> [] /\
      fixed_fill_buf_e r = EOk (firstnN (f_remaining_e r) (bbuf_e s')) {| f_src_e := s'; f_remaining_e := f_remaining_e r |} /\
      reach_e s' = reach_e (f_src_e r) /\ (ci s' <= ci (f_src_e r))%nat) \/
  (exists s', fixed_fill_buf_e r = EIntr {| f_src_e := s'; f_remaining_e := f_remaining_e r |} /\
              reach_e s' = reach_e (f_src_e r) /\ (ci s' < ci (f_src_e r))%nat).
Proof.
  intros Hr. unfold fixed_fill_buf_e. destruct (N.eqb_spec (f_remaining_e r) 0) as [E|E]; [contradiction|].
  destruct (fill_buf_e_spec (f_src_e r)) as [[s1 [Ef [F1 [F2 [F3 F4]]]]]|[s1 [Ef [F1 [F2 F3]]]]]; rewrite Ef.
  - destruct (bbuf_e s1) as [|x b] eqn:Eb.
    + left. exists s1. split; [reflexivity|]. apply F4. reflexivity.
    + right. left. exists s1. rewrite Eb. split; [discriminate|]. split; [reflexivity|]. split; [exact F1|exact F3].
  - right. right. exists s1. split; [reflexivity|]. split; [exact F1|exact F3].
Qed.

Lemma fixed_bufread_all_e_valid : forall amts r acc d rest,
  take_n (f_remaining_e r) (reach_e (f_src_e r)) = Some (d, rest) ->
  Forall (fun k => 0 < k) amts -> (length d + ci (f_src_e r) < length amts)%nat ->
  fst (bufread_all_e (BFixed_e r) amts acc) = (acc ++ d, AtEof).
Proof.
  induction amts as [|a amts IH]; intros r acc d rest Ht Hpos Hlen; [cbn [length] in Hlen; lia|].
  inversion Hpos as [|k' sz' Ha Hpos']. subst k' sz'.
  destruct (N.eq_dec (f_remaining_e r) 0) as [E|E].
  - rewrite E, take_n_0 in Ht. inversion Ht. subst d rest.
    rewrite (bufread_all_e_eof _ a amts acc (BFixed_e r)).
    + cbn [fst]. rewrite app_nil_r. reflexivity.
    + cbn [body_fill_buf_e]. unfold fixed_fill_buf_e. rewrite E. reflexivity.
  - destruct (fixed_fill_buf_e_cases r E) as [[s' [Hf Hnil]]|[[s' [Hne [Hf [F1 F3]]]]|[s' [Hf [F1 F3]]]]].
    + rewrite Hnil, take_n_nil in Ht by exact E. discriminate.
    + destruct (bufread_piece a (f_remaining_e r) _ Ha ltac:(lia) Hne) as [P1 [P2 [P3 [t P4]]]].
      cbv zeta in P1, P2, P3, P4.
      rewrite (bufread_all_e_more _ a amts acc (firstnN (f_remaining_e r) (bbuf_e s'))
                 (BFixed_e {| f_src_e := s'; f_remaining_e := f_remaining_e r |}));
        [|cbn [body_fill_buf_e]; rewrite Hf; reflexivity|exact P1].
      remember (firstnN a (firstnN (f_remaining_e r) (bbuf_e s'))) as got eqn:Egot.
      cbn [body_consume_e]. unfold fixed_consume_e. cbn [f_src_e f_remaining_e].
      destruct (consume_e_prefix s' got t P4) as [C1 [C2 C3]].
      rewrite F1 in C1. rewrite C1, take_n_app in Ht by exact P3.
      destruct (take_n (f_remaining_e r - lenN got) (reach_e (consume_e (lenN got) s')))
        as [[d' a']|] eqn:Et; [|discriminate].
      inversion Ht. subst d a'.
      rewrite (IH _ (acc ++ got) d' rest).
      * rewrite app_assoc. reflexivity.
      * cbn [f_src_e f_remaining_e]. exact Et.
      * exact Hpos'.
      * cbn [f_src_e]. rewrite C3. rewrite app_length in Hlen. cbn [length] in Hlen.
        destruct got; [congruence|]. cbn [length] in Hlen. lia.
    + rewrite (bufread_all_e_intr _ a amts acc (BFixed_e {| f_src_e := s'; f_remaining_e := f_remaining_e r |}));
        [|cbn [body_fill_buf_e]; rewrite Hf; reflexivity].
      apply (IH _ acc d rest).
      * cbn [f_src_e f_remaining_e]. rewrite F1. exact Ht.
      * exact Hpos'.
      * cbn [f_src_e]. cbn [length] in Hlen. lia.
Qed.

Theorem intr_fixed_bufread_valid : forall lo evs amts n p rest,
  spec_fixed n (lo ++ concat (strip evs)) = Valid p rest -> Forall (fun k => 0 < k) amts ->
  (length p + 1 * count_intr evs < length amts)%nat ->
  fst (bufread_all_e (new_fixed_e lo evs n) amts []) = (p, AtEof).
Proof.
  intros lo evs amts n p rest Hs Hpos Hlen. unfold spec_fixed in Hs.
  destruct (take_n n (lo ++ concat (strip evs))) as [[d a]|] eqn:Et; [|discriminate]. inversion Hs. subst d a.
  unfold new_fixed_e. rewrite (fixed_bufread_all_e_valid amts _ [] p []); [reflexivity| |exact Hpos|].
  - cbn [f_remaining_e f_src_e]. rewrite reach_e_mk_take. exact (take_n_firstnN _ _ _ _ Et).
  - cbn [f_src_e]. rewrite ci_mk_take. lia.
Qed.
Print Assumptions intr_fixed_bufread_valid.

Lemma fixed_bufread_all_e_invalid : forall amts r acc,
  lenN (reach_e (f_src_e r)) < f_remaining_e r -> Forall (fun k => 0 < k) amts ->
  snd (fst (bufread_all_e (BFixed_e r) amts acc)) <> AtEof.
Proof.
  induction amts as [|a amts IH]; intros r acc Hlt Hpos; [cbn; discriminate|].
  inversion Hpos as [|k' sz' Ha Hpos']. subst k' sz'.
  assert (E : f_remaining_e r <> 0) by lia.
  destruct (fixed_fill_buf_e_cases r E) as [[s' [Hf Hnil]]|[[s' [Hne [Hf [F1 F3]]]]|[s' [Hf [F1 F3]]]]].
  - rewrite (bufread_all_e_err _ a amts acc EUnexpectedEof (BFixed_e {| f_src_e := s'; f_remaining_e := f_remaining_e r |}));
      [cbn [fst snd]; discriminate|cbn [body_fill_buf_e]; rewrite Hf; reflexivity].
  - destruct (bufread_piece a (f_remaining_e r) _ Ha ltac:(lia) Hne) as [P1 [P2 [P3 [t P4]]]].
    cbv zeta in P1, P2, P3, P4.
    rewrite (bufread_all_e_more _ a amts acc (firstnN (f_remaining_e r) (bbuf_e s'))
               (BFixed_e {| f_src_e := s'; f_remaining_e := f_remaining_e r |}));
      [|cbn [body_fill_buf_e]; rewrite Hf; reflexivity|exact P1].
    remember (firstnN a (firstnN (f_remaining_e r) (bbuf_e s'))) as got eqn:Egot.
    cbn [body_consume_e]. unfold fixed_consume_e. cbn [f_src_e f_remaining_e].
    destruct (consume_e_prefix s' got t P4) as [C1 [C2 C3]].
    rewrite F1 in C1. apply IH; [|exact Hpos'].
    cbn [f_src_e f_remaining_e]. rewrite C1, lenN_app in Hlt. lia.
  - rewrite (bufread_all_e_intr _ a amts acc (BFixed_e {| f_src_e := s'; f_remaining_e := f_remaining_e r |}));
      [|cbn [body_fill_buf_e]; rewrite Hf; reflexivity].
    apply IH; [|exact Hpos']. cbn [f_src_e f_remaining_e]. rewrite F1. exact Hlt.
Qed.

Theorem intr_fixed_bufread_invalid : forall lo evs amts n w,
  spec_fixed n (lo ++ concat (strip evs)) = Invalid w -> Forall (fun k => 0 < k) amts ->
  snd (fst (bufread_all_e (new_fixed_e lo evs n) amts [])) <> AtEof.
Proof.
  intros lo evs amts n w Hs Hpos. unfold spec_fixed in Hs.
  destruct (take_n n (lo ++ concat (strip evs))) as [[d a]|] eqn:Et; [discriminate|].
  apply take_n_none in Et. unfold new_fixed_e. apply fixed_bufread_all_e_invalid; [|exact Hpos].
  cbn [f_remaining_e f_src_e]. rewrite reach_e_mk_take.
  pose proof (lenN_firstnN_le_len n (lo ++ concat (strip evs))) as Hle. lia.
Qed.
Print Assumptions intr_fixed_bufread_invalid.

(* ------------------------------------------------------------------ BufRead face, chunked *)
Lemma chunked_fill_buf_e_spec c acc D : CBe c -> sd c acc = D -> D <> Unspecified ->
  (exists e c', chunked_fill_buf_e c = EErr e c' /\ exists w, D = Invalid w) \/
  (exists c', chunked_fill_buf_e c = EOk [] c' /\ c_state_e c' = CDone /\ sd c' acc = D /\ CBe c' /\
              (cic c' <= cic c)%nat) \/
  (exists c', chunked_fill_buf_e c = EOk (firstnN (c_remaining_e c') (bbuf_e (c_src_e c'))) c' /\
              bbuf_e (c_src_e c') <> [] /\ c_state_e c' = CData /\ c_remaining_e c' <> 0 /\
              sd c' acc = D /\ CBe c' /\ (cic c' <= cic c)%nat) \/
  (exists c', chunked_fill_buf_e c = EIntr c' /\ sd c' acc = D /\ CBe c' /\ (cic c' < cic c)%nat).
Proof.
  intros Hb HD HU. unfold chunked_fill_buf_e.
  pose proof (advance_e_ok c acc Hb) as Hadv. rewrite HD in Hadv.
  destruct (step_ok_e_inv _ _ _ _ Hadv HU) as [[e [c' [He Hw]]]|[c1 [Hc1 [Hd1 [Hb1 [Hr1 Hci1]]]]]].
  - left. rewrite He. exists e, c'. split; [reflexivity|exact Hw].
  - rewrite Hc1. destruct Hr1 as [Hdone|[Hdata Hrem]].
    + change (c_state_e c1 = CDone) in Hdone. rewrite Hdone. right. left. exists c1.
      split; [reflexivity|]. split; [exact Hdone|]. split; [exact Hd1|]. split; [exact Hb1|exact Hci1].
    + change (c_state_e c1 = CData) in Hdata. change (c_remaining_e c1 <> 0) in Hrem.
      rewrite Hdata. cbv zeta.
      destruct (fill_buf_e_spec (c_src_e c1)) as [[s1 [Ef [F1 [F2 [F3 F4]]]]]|[s1 [Ef [F1 [F2 F3]]]]]; rewrite Ef.
      * pose (c2 := {| c_src_e := s1; c_state_e := CData; c_remaining_e := c_remaining_e c1 |}).
        assert (Hd2 : sd c2 acc = D).
        { rewrite <- Hd1. rewrite !sd_eq. unfold c2. cbn [c_src_e c_state_e c_remaining_e].
          rewrite Hdata, F1. reflexivity. }
        assert (Hb2 : CBe c2).
        { unfold CBe, c2. cbn [c_src_e].
          apply (Bound_e_shrink (c_src_e c1)); [exact F2|rewrite F1; lia|exact F3|exact Hb1]. }
        assert (Hc2 : (cic c2 <= cic c)%nat) by (unfold cic, c2 in *; cbn [c_src_e]; lia).
        destruct (bbuf_e s1) as [|x b] eqn:Eb.
        -- left. eexists. eexists. split; [reflexivity|]. exists Truncated.
           rewrite <- Hd1. unfold sd. apply data_eof; [exact Hdata|exact Hrem|exact (F4 eq_refl)].
        -- right. right. left. exists c2.
           split; [unfold c2; cbn [c_src_e c_remaining_e]; rewrite Eb; reflexivity|].
           split; [unfold c2; cbn [c_src_e]; rewrite Eb; discriminate|].
           split; [reflexivity|]. split; [exact Hrem|]. split; [exact Hd2|]. split; [exact Hb2|exact Hc2].
      * pose (c2 := {| c_src_e := s1; c_state_e := CData; c_remaining_e := c_remaining_e c1 |}).
        right. right. right. exists c2. split; [reflexivity|]. split; [|split].
        -- rewrite <- Hd1. rewrite !sd_eq. unfold c2. cbn [c_src_e c_state_e c_remaining_e].
           rewrite Hdata, F1. reflexivity.
        -- unfold CBe, c2. cbn [c_src_e].
           apply (Bound_e_shrink (c_src_e c1)); [exact F2|rewrite F1; lia|lia|exact Hb1].
        -- unfold cic, c2 in *; cbn [c_src_e]; lia.
Qed.

(* one fill_buf / consume round in the middle of a chunk *)
Lemma chunked_consume_e_step c acc a : 0 < a -> CBe c -> bbuf_e (c_src_e c) <> [] -> c_state_e c = CData ->
  c_remaining_e c <> 0 ->
  let avail := firstnN (c_remaining_e c) (bbuf_e (c_src_e c)) in
  let got := firstnN a avail in
  let c' := chunked_consume_e (lenN got) c in
  avail <> [] /\ got <> [] /\ sd c' (acc ++ got) = sd c acc /\ CBe c' /\ cic c' = cic c.
Proof.
  intros Ha Hb Hne Hst Hrem avail got c'.
  destruct (bufread_piece a (c_remaining_e c) _ Ha ltac:(lia) Hne) as [P1 [P2 [P3 [t P4]]]].
  cbv zeta in P1, P2, P3, P4. fold avail in P1, P2, P3, P4. fold got in P2, P3, P4.
  destruct (consume_e_prefix (c_src_e c) got t P4) as [C1 [C2 C3]].
  split; [exact P1|]. split; [exact P2|]. split; [|split].
  - unfold sd. apply data_step; [exact Hst|exact Hst|exact C1|exact P3|reflexivity].
  - unfold CBe, c', chunked_consume_e. cbn [c_src_e].
    apply (Bound_e_split (c_src_e c) _ got); [exact C2|exact C1|lia|exact Hb].
  - exact C3.
Qed.

Lemma chunked_bufread_all_e_valid : forall amts c acc p rest q, CBe c ->
  sd c acc = Valid p rest -> p = acc ++ q ->
  Forall (fun k => 0 < k) amts -> (length q + cic c < length amts)%nat ->
  fst (bufread_all_e (BChunked_e c) amts acc) = (p, AtEof).
Proof.
  induction amts as [|a amts IH]; intros c acc p rest q Hb HD Hp Hpos Hlen; [cbn [length] in Hlen; lia|].
  inversion Hpos as [|k' sz' Ha Hpos']. subst k' sz'.
  destruct (chunked_fill_buf_e_spec c acc _ Hb HD ltac:(discriminate))
    as [[e [c' [He [w Hw]]]]|[[c' [Ho [Hdone [Hd' [Hb' Hc']]]]]|[[c' [Ho [Hne [Hst [Hrem [Hd' [Hb' Hc']]]]]]]|[c' [Ho [Hd' [Hb' Hc']]]]]]];
    [discriminate| | |].
  - rewrite (bufread_all_e_eof _ a amts acc (BChunked_e c')); [|cbn [body_fill_buf_e]; rewrite Ho; reflexivity].
    unfold sd in Hd'. rewrite (done_dec (plainc c') _ Hdone) in Hd'. inversion Hd'. reflexivity.
  - destruct (chunked_consume_e_step c' acc a Ha Hb' Hne Hst Hrem) as [P1 [P2 [P3 [P4 P5]]]].
    cbv zeta in P1, P2, P3, P4, P5.
    rewrite (bufread_all_e_more _ a amts acc (firstnN (c_remaining_e c') (bbuf_e (c_src_e c'))) (BChunked_e c'));
      [|cbn [body_fill_buf_e]; rewrite Ho; reflexivity|exact P1].
    cbn [body_consume_e].
    remember (firstnN a (firstnN (c_remaining_e c') (bbuf_e (c_src_e c')))) as got eqn:Egot.
    rewrite Hd' in P3.
    destruct (st_dec_prefix _ _ _ _ P3) as [q' Hq'].
    apply (IH _ (acc ++ got) p rest q' P4 P3 Hq' Hpos').
    assert (Hqq : q = got ++ q').
    { apply (app_inv_head acc). rewrite <- Hp, Hq', app_assoc. reflexivity. }
    rewrite P5. rewrite Hqq, app_length in Hlen. destruct got; [congruence|]. cbn [length] in Hlen. lia.
  - rewrite (bufread_all_e_intr _ a amts acc (BChunked_e c')); [|cbn [body_fill_buf_e]; rewrite Ho; reflexivity].
    apply (IH c' acc p rest q Hb' Hd' Hp Hpos'). cbn [length] in Hlen. lia.
Qed.

Theorem intr_chunked_bufread_valid : forall lo evs amts p rest,
  spec_decode (lo ++ concat (strip evs)) = Valid p rest -> Forall (fun k => 0 < k) amts ->
  (length p + 1 * count_intr evs < length amts)%nat ->
  fst (bufread_all_e (new_chunked_e lo evs) amts []) = (p, AtEof).
Proof.
  intros lo evs amts p rest Hs Hpos Hlen. unfold new_chunked_e.
  apply (chunked_bufread_all_e_valid amts _ [] p rest p).
  - apply Bound_e_mk.
  - exact Hs.
  - reflexivity.
  - exact Hpos.
  - unfold cic. cbn [c_src_e]. rewrite ci_mk. lia.
Qed.
Print Assumptions intr_chunked_bufread_valid.

Lemma chunked_bufread_all_e_invalid : forall amts c acc w, CBe c ->
  sd c acc = Invalid w -> Forall (fun k => 0 < k) amts ->
  snd (fst (bufread_all_e (BChunked_e c) amts acc)) <> AtEof.
Proof.
  induction amts as [|a amts IH]; intros c acc w Hb HD Hpos; [cbn; discriminate|].
  inversion Hpos as [|k' sz' Ha Hpos']. subst k' sz'.
  destruct (chunked_fill_buf_e_spec c acc _ Hb HD ltac:(discriminate))
    as [[e [c' [He _]]]|[[c' [Ho [Hdone [Hd' [Hb' Hc']]]]]|[[c' [Ho [Hne [Hst [Hrem [Hd' [Hb' Hc']]]]]]]|[c' [Ho [Hd' [Hb' Hc']]]]]]].
  - rewrite (bufread_all_e_err _ a amts acc e (BChunked_e c')); [|cbn [body_fill_buf_e]; rewrite He; reflexivity].
    cbn [fst snd]. discriminate.
  - exfalso. unfold sd in Hd'. rewrite (done_dec (plainc c') _ Hdone) in Hd'. discriminate.
  - destruct (chunked_consume_e_step c' acc a Ha Hb' Hne Hst Hrem) as [P1 [P2 [P3 [P4 P5]]]].
    cbv zeta in P1, P2, P3, P4, P5.
    rewrite (bufread_all_e_more _ a amts acc (firstnN (c_remaining_e c') (bbuf_e (c_src_e c'))) (BChunked_e c'));
      [|cbn [body_fill_buf_e]; rewrite Ho; reflexivity|exact P1].
    cbn [body_consume_e]. rewrite Hd' in P3.
    exact (IH _ _ w P4 P3 Hpos').
  - rewrite (bufread_all_e_intr _ a amts acc (BChunked_e c')); [|cbn [body_fill_buf_e]; rewrite Ho; reflexivity].
    exact (IH c' acc w Hb' Hd' Hpos').
Qed.

Theorem intr_chunked_bufread_invalid : forall lo evs amts w,
  spec_decode (lo ++ concat (strip evs)) = Invalid w -> Forall (fun k => 0 < k) amts ->
  snd (fst (bufread_all_e (new_chunked_e lo evs) amts [])) <> AtEof.
Proof.
  intros lo evs amts w Hs Hpos. unfold new_chunked_e.
  apply (chunked_bufread_all_e_invalid amts _ [] w); [apply Bound_e_mk|exact Hs|exact Hpos].
Qed.
Print Assumptions intr_chunked_bufread_invalid.

(* ------------------------------------------------------------------ embedding: no interruption = Model/Body.v *)
Lemma strip_map st : strip (map SData st) = st.
Proof. induction st as [|g st IH]; [reflexivity|]. cbn [map strip]. rewrite IH. reflexivity. Qed.

Lemma count_intr_map st : count_intr (map SData st) = 0%nat.
Proof. induction st as [|g st IH]; [reflexivity|]. cbn [map count_intr]. exact IH. Qed.

Definition emb_src (s : src) : src_e :=
  {| bbuf_e := bbuf s; lo_e := lo s; evs_e := map SData (segs s); sfuel_e := sfuel s; stake_e := stake s |}.
Definition emb_fixed (r : fixed) : fixed_e := {| f_src_e := emb_src (f_src r); f_remaining_e := f_remaining r |}.
Definition emb_chunked (c : chunked) : chunked_e :=
  {| c_src_e := emb_src (c_src c); c_state_e := c_state c; c_remaining_e := c_remaining c |}.
Definition emb_body (b : body) : body_e :=
  match b with
  | BFixed r => BFixed_e (emb_fixed r)
  | BChunked c => BChunked_e (emb_chunked c)
  | BEof s => BEof_e (emb_src s)
  | BEmpty s => BEmpty_e (emb_src s)
  end.
Definition emb_res {S T} (f : S -> T) (r : rres S) : eres T :=
  match r with ROk o s => EOk o (f s) | RErr e s => EErr e (f s) end.
Definition rmap {S T} (f : S -> T) (r : rres S) : rres T :=
  match r with ROk o s => ROk o (f s) | RErr e s => RErr e (f s) end.
Definition omap_src (o : option (bytes * src)) : option (bytes * src_e) :=
  match o with Some (x, s') => Some (x, emb_src s') | None => None end.
Definition emb_out (r : bytes * outcome * body) : bytes * outcome * body_e :=
  let '(a, o, b') := r in (a, o, emb_body b').

Lemma plain_emb_src s : plain_src (emb_src s) = s.
Proof. destruct s as [bb l sg fu tk]. unfold plain_src, emb_src. cbn [bbuf_e lo_e evs_e sfuel_e stake_e bbuf lo segs sfuel stake]. rewrite strip_map. reflexivity. Qed.

Lemma emb_stream_read k sg :
  stream_read_e k (map SData sg) = EOk (fst (stream_read k sg)) (map SData (snd (stream_read k sg))).
Proof.
  induction sg as [|g rest IH]; [reflexivity|].
  destruct g as [|x g].
  - cbn [map stream_read_e stream_read]. exact IH.
  - cbn [map stream_read_e stream_read]. destruct (skipnN k (x :: g)); reflexivity.
Qed.

Lemma emb_inner_read k l sg :
  inner_read_e k l (map SData sg) = let '(out, l', sg') := inner_read k l sg in EOk out (l', map SData sg').
Proof.
  unfold inner_read_e, inner_read. destruct l as [|x l]; [|reflexivity].
  rewrite emb_stream_read. destruct (stream_read k sg) as [out sg']. reflexivity.
Qed.

Lemma emb_take_read k s :
  take_read_e k (emb_src s) = let '(out, l', sg', tk) := take_read k s in EOk out (l', map SData sg', tk).
Proof.
  unfold take_read_e, take_read.
  change (stake_e (emb_src s)) with (stake s). change (lo_e (emb_src s)) with (lo s).
  change (evs_e (emb_src s)) with (map SData (segs s)).
  destruct (stake s) as [lim|].
  - destruct (N.eqb lim 0); [reflexivity|]. rewrite emb_inner_read.
    destruct (inner_read (N.min k lim) (lo s) (segs s)) as [[out l'] sg']. reflexivity.
  - rewrite emb_inner_read. destruct (inner_read k (lo s) (segs s)) as [[out l'] sg']. reflexivity.
Qed.

Lemma emb_fill_buf s : fill_buf_e (emb_src s) = EOk (bbuf (fill_buf s)) (emb_src (fill_buf s)).
Proof.
  unfold fill_buf_e, fill_buf. change (bbuf_e (emb_src s)) with (bbuf s).
  destruct (bbuf s) as [|x b] eqn:Eb.
  - rewrite emb_take_read. destruct (take_read BUF_SIZE s) as [[[out l'] sg'] tk]. reflexivity.
  - rewrite <- Eb. reflexivity.
Qed.

Lemma emb_consume n s : consume_e n (emb_src s) = emb_src (consume n s).
Proof. reflexivity. Qed.

Lemma emb_buf_read k s : buf_read_e k (emb_src s) = let '(out, s') := buf_read k s in EOk out (emb_src s').
Proof.
  unfold buf_read_e, buf_read. change (bbuf_e (emb_src s)) with (bbuf s).
  destruct (bbuf s) as [|x b] eqn:Eb.
  - destruct (N.leb BUF_SIZE k).
    + rewrite emb_take_read. destruct (take_read k s) as [[[out l'] sg'] tk]. reflexivity.
    + rewrite emb_fill_buf. reflexivity.
  - reflexivity.
Qed.

Lemma emb_read_exact_loop fuel : forall n s acc,
  read_exact_loop_e fuel n (emb_src s) acc = omap_src (read_exact_loop fuel n s acc).
Proof.
  induction fuel as [|fuel IH]; intros n s acc; cbn [read_exact_loop_e read_exact_loop].
  - destruct (N.eqb n 0); reflexivity.
  - destruct (N.eqb n 0); [reflexivity|]. rewrite emb_buf_read.
    destruct (buf_read n s) as [out s']. destruct out as [|o out]; [reflexivity|]. apply IH.
Qed.

Lemma emb_read_exact n s : read_exact_e n (emb_src s) = omap_src (read_exact n s).
Proof.
  unfold read_exact_e, read_exact. change (bbuf_e (emb_src s)) with (bbuf s).
  destruct (N.leb n (lenN (firstnN n (bbuf s)))); [reflexivity|].
  change (evs_e (emb_src s)) with (map SData (segs s)).
  rewrite count_intr_map, Nat.add_0_r. apply emb_read_exact_loop.
Qed.

Lemma emb_read_until_lf fuel : forall s acc,
  read_until_lf_e fuel (emb_src s) acc = let '(l, s') := read_until_lf fuel s acc in (l, emb_src s').
Proof.
  induction fuel as [|fuel IH]; intros s acc; cbn [read_until_lf_e read_until_lf]; [reflexivity|].
  rewrite emb_fill_buf.
  destruct (find_index (Byte.eqb x0a) (bbuf (fill_buf s))) as [i|]; [reflexivity|].
  destruct (bbuf (fill_buf s)) as [|x b] eqn:Eb; [reflexivity|].
  exact (IH (consume (lenN (x :: b)) (fill_buf s)) (acc ++ x :: b)).
Qed.

Lemma emb_read_line s : read_line_e (emb_src s) = let '(r, s') := read_line s in (r, emb_src s').
Proof.
  unfold read_line_e, read_line. change (sfuel_e (emb_src s)) with (sfuel s). rewrite emb_read_until_lf.
  destruct (read_until_lf (sfuel s) s []) as [line s']. destruct (utf8_valid line); reflexivity.
Qed.

Lemma emb_fixed_read k r : fixed_read_e k (emb_fixed r) = emb_res emb_fixed (fixed_read k r).
Proof.
  unfold fixed_read_e, fixed_read.
  change (f_remaining_e (emb_fixed r)) with (f_remaining r). change (f_src_e (emb_fixed r)) with (emb_src (f_src r)).
  destruct (N.eqb (f_remaining r) 0 || N.eqb k 0); [reflexivity|]. cbv zeta.
  rewrite emb_buf_read. destruct (buf_read (N.min (f_remaining r) k) (f_src r)) as [out s'].
  destruct out; reflexivity.
Qed.

Lemma emb_fixed_fill_buf r : fixed_fill_buf_e (emb_fixed r) = emb_res emb_fixed (fixed_fill_buf r).
Proof.
  unfold fixed_fill_buf_e, fixed_fill_buf.
  change (f_remaining_e (emb_fixed r)) with (f_remaining r). change (f_src_e (emb_fixed r)) with (emb_src (f_src r)).
  destruct (N.eqb (f_remaining r) 0); [reflexivity|]. cbv zeta.
  rewrite emb_fill_buf. destruct (bbuf (fill_buf (f_src r))); reflexivity.
Qed.

Lemma emb_read_chunk_size c : read_chunk_size_e (emb_chunked c) = rmap emb_chunked (read_chunk_size c).
Proof.
  rewrite read_chunk_size_e_eq, read_chunk_size_eq. change (c_src_e (emb_chunked c)) with (emb_src (c_src c)).
  rewrite emb_read_line. destruct (read_line (c_src c)) as [r s']. destruct r as [line|e]; [|reflexivity].
  destruct (parse_size_line line); reflexivity.
Qed.

Lemma emb_trailer_loop fuel : forall s,
  trailer_loop_e fuel (emb_src s) = let '(o, s') := trailer_loop fuel s in (o, emb_src s').
Proof.
  induction fuel as [|fuel IH]; intros s; cbn [trailer_loop_e trailer_loop]; [reflexivity|].
  rewrite emb_read_line. destruct (read_line s) as [r s']. destruct r as [line|e]; [|reflexivity].
  destruct line as [|l0 line]; [reflexivity|].
  destruct (bytes_eqb (l0 :: line) [x0d; x0a] || bytes_eqb (l0 :: line) [x0a]); [reflexivity|]. apply IH.
Qed.

Lemma emb_advance fuel : forall c, advance_e fuel (emb_chunked c) = rmap emb_chunked (advance fuel c).
Proof.
  induction fuel as [|fuel IH]; intros c; cbn [advance_e advance]; [reflexivity|].
  change (c_state_e (emb_chunked c)) with (c_state c). destruct (c_state c) eqn:Est.
  - rewrite emb_read_chunk_size. destruct (read_chunk_size c) as [o c'|e c']; [|reflexivity].
    cbn [rmap]. apply IH.
  - change (c_remaining_e (emb_chunked c)) with (c_remaining c).
    destruct (N.eqb (c_remaining c) 0); [|reflexivity].
    exact (IH {| c_src := c_src c; c_state := CCrlf; c_remaining := 0 |}).
  - change (c_src_e (emb_chunked c)) with (emb_src (c_src c)). rewrite emb_read_exact.
    destruct (read_exact 2 (c_src c)) as [[crlf s']|]; [|reflexivity]. cbn [omap_src].
    destruct (bytes_eqb crlf [x0d; x0a]); [|reflexivity].
    exact (IH {| c_src := s'; c_state := CSize; c_remaining := c_remaining c |}).
  - change (c_src_e (emb_chunked c)) with (emb_src (c_src c)).
    change (sfuel_e (emb_src (c_src c))) with (sfuel (c_src c)). rewrite emb_trailer_loop.
    destruct (trailer_loop (sfuel (c_src c)) (c_src c)) as [[e|] s']; [reflexivity|].
    exact (IH {| c_src := s'; c_state := CDone; c_remaining := c_remaining c |}).
  - reflexivity.
Qed.

Lemma emb_chunked_read_loop fuel : forall k c w,
  chunked_read_loop_e fuel k (emb_chunked c) w = emb_res emb_chunked (chunked_read_loop fuel k c w).
Proof.
  induction fuel as [|fuel IH]; intros k c w; cbn [chunked_read_loop_e chunked_read_loop]; [reflexivity|].
  change (adv_fuel_e (emb_chunked c)) with (adv_fuel c). rewrite emb_advance.
  destruct (advance (adv_fuel c) c) as [o c1|e c1]; [|reflexivity]. cbn [rmap].
  change (c_state_e (emb_chunked c1)) with (c_state c1).
  change (c_src_e (emb_chunked c1)) with (emb_src (c_src c1)).
  change (c_remaining_e (emb_chunked c1)) with (c_remaining c1).
  destruct (c_state c1); try reflexivity;
    (destruct (N.eqb k 0); [reflexivity|]; cbv zeta; rewrite emb_buf_read;
     destruct (buf_read (N.min (c_remaining c1) k) (c_src c1)) as [out s']; destruct out as [|o0 out]; [reflexivity|];
     cbn [c_remaining_e c_remaining];
     destruct ((c_remaining c1 - lenN (o0 :: out) =? 0) || (k - lenN (o0 :: out) =? 0)); [reflexivity|];
     exact (IH _ {| c_src := s'; c_state := _; c_remaining := c_remaining c1 - lenN (o0 :: out) |} _)).
Qed.

Lemma emb_chunked_read k c : chunked_read_e k (emb_chunked c) = emb_res emb_chunked (chunked_read k c).
Proof.
  unfold chunked_read_e, chunked_read. change (sfuel_e (c_src_e (emb_chunked c))) with (sfuel (c_src c)).
  apply emb_chunked_read_loop.
Qed.

Lemma emb_chunked_fill_buf c : chunked_fill_buf_e (emb_chunked c) = emb_res emb_chunked (chunked_fill_buf c).
Proof.
  unfold chunked_fill_buf_e, chunked_fill_buf. change (adv_fuel_e (emb_chunked c)) with (adv_fuel c).
  rewrite emb_advance. destruct (advance (adv_fuel c) c) as [o c1|e c1]; [|reflexivity]. cbn [rmap].
  change (c_state_e (emb_chunked c1)) with (c_state c1).
  change (c_src_e (emb_chunked c1)) with (emb_src (c_src c1)).
  change (c_remaining_e (emb_chunked c1)) with (c_remaining c1).
  cbv zeta. rewrite emb_fill_buf.
  destruct (c_state c1); try reflexivity; destruct (bbuf (fill_buf (c_src c1))); reflexivity.
Qed.

Lemma emb_res_comp {S T U} (f : S -> T) (g : T -> U) (r : rres S) :
  emap g (emb_res f r) = emb_res (fun s => g (f s)) r.
Proof. destruct r; reflexivity. Qed.

Lemma emb_body_read k b : body_read_e k (emb_body b) = emb_res emb_body (body_read k b).
Proof.
  destruct b as [r|c|s|s]; cbn [body_read_e body_read emb_body].
  - rewrite emb_fixed_read. destruct (fixed_read k r); reflexivity.
  - rewrite emb_chunked_read. destruct (chunked_read k c); reflexivity.
  - rewrite emb_buf_read. destruct (buf_read k s) as [out s']. reflexivity.
  - reflexivity.
Qed.

Lemma emb_body_fill_buf b : body_fill_buf_e (emb_body b) = emb_res emb_body (body_fill_buf b).
Proof.
  destruct b as [r|c|s|s]; cbn [body_fill_buf_e body_fill_buf emb_body].
  - rewrite emb_fixed_fill_buf. destruct (fixed_fill_buf r); reflexivity.
  - rewrite emb_chunked_fill_buf. destruct (chunked_fill_buf c); reflexivity.
  - rewrite emb_fill_buf. reflexivity.
  - reflexivity.
Qed.

Lemma emb_body_consume n b : body_consume_e n (emb_body b) = emb_body (body_consume n b).
Proof. destruct b; reflexivity. Qed.

Lemma emb_read_all : forall sizes b acc, read_all_e (emb_body b) sizes acc = emb_out (read_all b sizes acc).
Proof.
  induction sizes as [|k sizes IH]; intros b acc; cbn [read_all_e read_all]; [reflexivity|].
  rewrite emb_body_read. destruct (body_read k b) as [out b'|e b']; [|reflexivity]. cbn [emb_res].
  destruct out as [|o out]; [reflexivity|]. apply IH.
Qed.

Lemma emb_bufread_all : forall amts b acc, bufread_all_e (emb_body b) amts acc = emb_out (bufread_all b amts acc).
Proof.
  induction amts as [|a amts IH]; intros b acc; cbn [bufread_all_e bufread_all]; [reflexivity|].
  rewrite emb_body_fill_buf. destruct (body_fill_buf b) as [out b'|e b']; [|reflexivity]. cbn [emb_res].
  destruct out as [|o out]; [reflexivity|]. cbv zeta. rewrite emb_body_consume. apply IH.
Qed.

Lemma emb_new_chunked lo st : new_chunked_e lo (map SData st) = emb_body (new_chunked lo st).
Proof.
  unfold new_chunked_e, new_chunked, mk_src_e, mk_src, emb_body, emb_chunked, emb_src.
  cbn [c_src c_state c_remaining bbuf Body.lo segs sfuel stake].
  rewrite strip_map, count_intr_map, Nat.add_0_r. reflexivity.
Qed.

Lemma emb_new_fixed lo st n : new_fixed_e lo (map SData st) n = emb_body (new_fixed lo st n).
Proof.
  unfold new_fixed_e, new_fixed, mk_src_take_e, mk_src_take, emb_body, emb_fixed, emb_src.
  cbn [f_src f_remaining bbuf Body.lo segs sfuel stake].
  rewrite strip_map, count_intr_map, Nat.add_0_r. reflexivity.
Qed.

(* on a stream without interruptions the drivers of this model return what those of Model/Body.v return (the final
   reader state included, up to the embedding) *)
Theorem embed_chunked_read lo st sizes :
  read_all_e (new_chunked_e lo (map SData st)) sizes [] = emb_out (read_all (new_chunked lo st) sizes []).
Proof. rewrite emb_new_chunked. apply emb_read_all. Qed.
Theorem embed_fixed_read lo st n sizes :
  read_all_e (new_fixed_e lo (map SData st) n) sizes [] = emb_out (read_all (new_fixed lo st n) sizes []).
Proof. rewrite emb_new_fixed. apply emb_read_all. Qed.
Theorem embed_chunked_bufread lo st amts :
  bufread_all_e (new_chunked_e lo (map SData st)) amts [] = emb_out (bufread_all (new_chunked lo st) amts []).
Proof. rewrite emb_new_chunked. apply emb_bufread_all. Qed.
Theorem embed_fixed_bufread lo st n amts :
  bufread_all_e (new_fixed_e lo (map SData st) n) amts [] = emb_out (bufread_all (new_fixed lo st n) amts []).
Proof. rewrite emb_new_fixed. apply emb_bufread_all. Qed.

Lemma fst_emb_out r : fst (emb_out r) = fst r.
Proof. destruct r as [[a o] b]. reflexivity. Qed.

Corollary embed_chunked_read_result lo st sizes :
  fst (read_all_e (new_chunked_e lo (map SData st)) sizes []) = fst (read_all (new_chunked lo st) sizes []).
Proof. rewrite embed_chunked_read. apply fst_emb_out. Qed.
Corollary embed_fixed_read_result lo st n sizes :
  fst (read_all_e (new_fixed_e lo (map SData st) n) sizes []) = fst (read_all (new_fixed lo st n) sizes []).
Proof. rewrite embed_fixed_read. apply fst_emb_out. Qed.
Corollary embed_chunked_bufread_result lo st amts :
  fst (bufread_all_e (new_chunked_e lo (map SData st)) amts []) = fst (bufread_all (new_chunked lo st) amts []).
Proof. rewrite embed_chunked_bufread. apply fst_emb_out. Qed.
Corollary embed_fixed_bufread_result lo st n amts :
  fst (bufread_all_e (new_fixed_e lo (map SData st) n) amts []) = fst (bufread_all (new_fixed lo st n) amts []).
Proof. rewrite embed_fixed_bufread. apply fst_emb_out. Qed.

(* ------------------------------------------------------------------ examples *)
(* "5\r\nhello\r\n6\r\n world\r\n0\r\n\r\n" arriving in three segments with two interrupted reads.  The first interruption falls
   inside the first chunk after "hel" has been buffered and copied to the caller (the F40 situation); the second one hits
   the read_line of the next size line, which retries. *)
Definition ex_wire : bytes :=
  bs "5" ++ [x0d; x0a] ++ bs "hello" ++ [x0d; x0a] ++ bs "6" ++ [x0d; x0a] ++ bs " world" ++ [x0d; x0a] ++
  bs "0" ++ [x0d; x0a; x0d; x0a].
Definition ex_evs : list sev :=
  [ SData (bs "5" ++ [x0d; x0a] ++ bs "hel"); SIntr; SData (bs "lo" ++ [x0d; x0a]); SIntr;
    SData (bs "6" ++ [x0d; x0a] ++ bs " world" ++ [x0d; x0a] ++ bs "0" ++ [x0d; x0a; x0d; x0a]) ].
Definition ex_sizes : list N := [100; 100; 100; 100; 100; 100].

Example ex_evs_wire : concat (strip ex_evs) = ex_wire /\ count_intr ex_evs = 2%nat.
Proof. vm_compute. split; reflexivity. Qed.
Example ex_spec : spec_decode ex_wire = Valid (bs "hello world") [].
Proof. vm_compute. reflexivity. Qed.

(* the first call is interrupted after "hel": it reports those three bytes *)
Example f40_first_call_reports_written :
  match body_read_e 100 (new_chunked_e [] ex_evs) with EOk out _ => out = bs "hel" | _ => False end.
Proof. vm_compute. reflexivity. Qed.

Example f40_payload_whole :
  fst (read_all_e (new_chunked_e [] ex_evs) ex_sizes []) = (bs "hello world", AtEof).
Proof. vm_compute. reflexivity. Qed.
Example f40_payload_whole_small_reads :
  fst (read_all_e (new_chunked_e [] ex_evs) (repeat 2 14) []) = (bs "hello world", AtEof).
Proof. vm_compute. reflexivity. Qed.
Example f40_payload_whole_bufread :
  fst (bufread_all_e (new_chunked_e [] ex_evs) ex_sizes []) = (bs "hello world", AtEof).
Proof. vm_compute. reflexivity. Qed.

(* the code before the repair: `self.inner.read(..)?` - an interrupted inner read is returned as the error of the whole
   call even when bytes of this call have already been copied; they are dropped *)
Fixpoint chunked_read_loop_old_e (fuel : nat) (k : N) (c : chunked_e) (written : bytes) : eres chunked_e :=
  match fuel with
  | O => EOk written c
  | S fuel' =>
      match advance_e (adv_fuel_e c) c with
      | RErr e c' => EErr e c'
      | ROk _ c1 =>
          match c_state_e c1 with
          | CDone => EOk written c1
          | _ =>
              if N.eqb k 0 then EOk written c1
              else
                let to_read := N.min (c_remaining_e c1) k in
                let back s' := {| c_src_e := s'; c_state_e := c_state_e c1; c_remaining_e := c_remaining_e c1 |} in
                match buf_read_e to_read (c_src_e c1) with
                | EIntr s' => EIntr (back s')
                | EErr e s' => EErr e (back s')
                | EOk [] s' => EErr EUnexpectedEof (back s')
                | EOk out s' =>
                    let n := lenN out in
                    let c2 := {| c_src_e := s'; c_state_e := c_state_e c1; c_remaining_e := (c_remaining_e c1 - n)%N |} in
                    if N.eqb (c_remaining_e c2) 0 || N.eqb (k - n) 0 then EOk (written ++ out) c2
                    else chunked_read_loop_old_e fuel' (k - n)%N c2 (written ++ out)
                end
          end
      end
  end.
Definition chunked_read_old_e (k : N) (c : chunked_e) : eres chunked_e :=
  chunked_read_loop_old_e (sfuel_e (c_src_e c)) k c [].
(* the same retrying caller as [read_all_e] *)
Fixpoint read_all_old_e (c : chunked_e) (sizes : list N) (acc : bytes) : bytes * outcome * chunked_e :=
  match sizes with
  | [] => (acc, More, c)
  | k :: rest =>
      match chunked_read_old_e k c with
      | EErr e c' => (acc, Failed e, c')
      | EIntr c' => read_all_old_e c' rest acc
      | EOk [] c' => (acc, AtEof, c')
      | EOk out c' => read_all_old_e c' rest (acc ++ out)
      end
  end.

(* on the same input the old code ends the body normally with "hel" missing *)
Example f40_old_code_loses_bytes :
  fst (read_all_old_e {| c_src_e := mk_src_e [] ex_evs; c_state_e := CSize; c_remaining_e := 0 |} ex_sizes [])
  = (bs "lo world", AtEof).
Proof. vm_compute. reflexivity. Qed.
(* without an interruption inside a call that has already copied bytes the two agree *)
Example f40_old_code_ok_without_intr :
  fst (read_all_old_e {| c_src_e := mk_src_e [] (map SData (strip ex_evs)); c_state_e := CSize; c_remaining_e := 0 |} ex_sizes [])
  = (bs "hello world", AtEof).
Proof. vm_compute. reflexivity. Qed.
