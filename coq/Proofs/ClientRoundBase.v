(* Client round trip, groundwork: the response parser reads a printed head (status line, rendered
   field lines, blank line) back exactly, under the side conditions the parser really needs; the
   body reader chosen by BodyReader::from_response returns the payload of a length-delimited or a
   chunked body, however the bytes behind the head are split between the head buffer and the
   stream. *)
From KV Require Import Lib.Bytes Model.Headers Model.Parser Model.Body Model.Printer Model.Client
  Spec.HeaderStore Spec.ChunkedSpec Spec.MessageSpec Spec.PrinterSpec
  Proofs.Headers Proofs.BodySpec Proofs.PrinterRoundBase Proofs.PrinterRoundHead
  Proofs.ParserCompleteBase Proofs.ParserCompleteMethod Proofs.ParserCompleteHdr Proofs.BodyRead.
From KV Require Spec.HttpGrammar.

(* the header collection a parser must report for a field list (Spec/HttpGrammar.v): the fields
   added in order to Headers::new() *)
Notation headers_of := HttpGrammar.headers_of.

(* ------------------------------------------------------------------ the side conditions *)
(* what the response parser needs beyond printability (wf_field): a field name made of the bytes
   parse_header_line accepts.  (The value needs nothing more: parse_header_line strips only the
   OWS after the colon, and wf_field already says the value does not start with OWS.) *)
Definition client_field_ok (f : bytes * bytes) : bool :=
  forallb is_valid_header_field_byte (fst f).
(* a reason phrase parse_response_status accepts: HTAB / SP / VCHAR *)
Definition client_reason_ok (reason : bytes) : bool := forallb is_reason_byte reason.

(* ------------------------------------------------------------------ byte classes *)
Lemma reason_byte_plain : forall b, is_reason_byte b = true -> Byte.eqb b x0d = false /\ is_ascii b = true.
Proof. intros b H. destruct b; vm_compute in H |- *; first [split; reflexivity | discriminate H]. Qed.

Lemma field_byte_ascii : forall b, is_valid_header_field_byte b = true -> is_ascii b = true.
Proof. pc_bytes. Qed.

Lemma nolf_nb l : nolf l = true -> forallb (nb x0a) l = true.
Proof.
  unfold nolf. apply pc_forallb_impl. intros b Hb. unfold nb. rewrite byte_eqb_comm. exact Hb.
Qed.

(* ------------------------------------------------------------------ the status line *)
Lemma reason_scan_cons c d q i :
  reason_scan (c :: d :: q) i =
  if Byte.eqb c x0d && Byte.eqb d x0a then Ok i
  else if is_reason_byte c then reason_scan (d :: q) (S i) else Err EStatus.
Proof. reflexivity. Qed.

Lemma reason_scan_ok : forall reason i more, forallb is_reason_byte reason = true ->
  reason_scan (reason ++ x0d :: x0a :: more) i = Ok (i + length reason).
Proof.
  induction reason as [|c r IH]; intros i more H.
  - cbn [app length]. rewrite reason_scan_cons, !pc_eqb_refl. cbn [andb]. rewrite Nat.add_0_r. reflexivity.
  - cbn [forallb] in H. apply andb_true_iff in H. destruct H as [Hcb H].
    destruct (reason_byte_plain c Hcb) as [Hcr _].
    cbn [app]. destruct (r ++ x0d :: x0a :: more) as [|d q] eqn:E.
    { destruct r; discriminate E. }
    rewrite reason_scan_cons, Hcr, Hcb. cbn [andb]. rewrite <- E, (IH (S i) more H).
    cbn [length]. f_equal. lia.
Qed.

Lemma status_parse code reason more : (100 <= code <= 999)%N -> forallb is_reason_byte reason = true ->
  parse_response_status (u16_to_ascii code ++ reason ++ x0d :: x0a :: more) = Ok (code, reason, more).
Proof.
  intros Hc Hr.
  assert (code / 100 < 10)%N as H1 by (apply N.div_lt_upper_bound; lia).
  assert ((code / 10) mod 10 < 10)%N as H2 by (apply N.mod_lt; lia).
  assert (code mod 10 < 10)%N as H3 by (apply N.mod_lt; lia).
  unfold u16_to_ascii. rewrite (N.mod_small (code / 100) 256) by lia. cbn [app].
  unfold parse_response_status, digit_at. cbn [nth_error].
  rewrite (digit_is_digit _ H1), (digit_is_digit _ H2), (digit_is_digit _ H3). cbn [bind].
  rewrite (digit_value _ H1), (digit_value _ H2), (digit_value _ H3).
  rewrite pc_eqb_refl. cbn [negb skipn].
  rewrite (reason_scan_ok reason 0 more Hr). cbn [bind Nat.add].
  rewrite (pc_firstn_mid reason (x0d :: x0a :: more) _ eq_refl).
  unfold str_unchecked.
  rewrite (pc_forallb_impl _ _ _ (fun b Hb => proj2 (reason_byte_plain b Hb)) Hr). cbn [bind].
  replace (skipn (length reason + 2) (reason ++ x0d :: x0a :: more)) with more.
  2:{ change (reason ++ x0d :: x0a :: more) with (reason ++ [x0d; x0a] ++ more).
      rewrite app_assoc. symmetry. apply pc_skipn_mid. rewrite app_length. reflexivity. }
  assert (code / 100 * 100 + (code / 10) mod 10 * 10 + code mod 10 = code)%N as E.
  { pose proof (N.div_mod code 10 ltac:(lia)) as D1.
    pose proof (N.div_mod (code / 10) 10 ltac:(lia)) as D2.
    rewrite N.div_div in D2 by lia. change (10 * 10)%N with 100%N in D2. lia. }
  rewrite E. reflexivity.
Qed.

(* the converse: a reason phrase with any other byte (and no CR, LF) is rejected *)
Lemma reason_scan_bad : forall reason i more, no_crlf reason = true -> forallb is_reason_byte reason = false ->
  reason_scan (reason ++ x0d :: x0a :: more) i = Err EStatus.
Proof.
  induction reason as [|c r IH]; intros i more Hn H; [discriminate H|].
  unfold no_crlf in Hn. cbn [forallb] in Hn, H. apply andb_true_iff in Hn. destruct Hn as [Hc Hn].
  apply negb_true_iff in Hc. apply orb_false_iff in Hc. destruct Hc as [Hcr _].
  cbn [app]. destruct (r ++ x0d :: x0a :: more) as [|d q] eqn:E.
  { destruct r; discriminate E. }
  rewrite reason_scan_cons, Hcr. cbn [andb].
  destruct (is_reason_byte c); [|reflexivity]. cbn [andb] in H. rewrite <- E. apply IH; assumption.
Qed.

Lemma status_parse_bad code reason more : (100 <= code <= 999)%N ->
  no_crlf reason = true -> forallb is_reason_byte reason = false ->
  parse_response_status (u16_to_ascii code ++ reason ++ x0d :: x0a :: more) = Err EStatus.
Proof.
  intros Hc Hn Hr.
  assert (code / 100 < 10)%N as H1 by (apply N.div_lt_upper_bound; lia).
  assert ((code / 10) mod 10 < 10)%N as H2 by (apply N.mod_lt; lia).
  assert (code mod 10 < 10)%N as H3 by (apply N.mod_lt; lia).
  unfold u16_to_ascii. rewrite (N.mod_small (code / 100) 256) by lia. cbn [app].
  unfold parse_response_status, digit_at. cbn [nth_error].
  rewrite (digit_is_digit _ H1), (digit_is_digit _ H2), (digit_is_digit _ H3). cbn [bind].
  rewrite pc_eqb_refl. cbn [negb skipn].
  rewrite (reason_scan_bad reason 0 more Hn Hr). reflexivity.
Qed.

Lemma status_line_shape code reason more :
  status_line code reason ++ more =
  bs "HTTP/1." ++ x31 :: x20 :: (u16_to_ascii code ++ reason ++ x0d :: x0a :: more).
Proof. unfold status_line, Printer.CRLF. rewrite <- !app_assoc. reflexivity. Qed.

(* ------------------------------------------------------------------ one field line *)
Lemma cr_header_line name value :
  name <> [] ->
  forallb (fun b => negb (Byte.eqb b x3a) && negb (Byte.eqb b x0d) && negb (Byte.eqb b x0a)) name = true ->
  no_outer_ows value ->
  client_field_ok (name, value) = true ->
  parse_header_line (name ++ x3a :: x20 :: value) = Ok (name, value).
Proof.
  intros N1 N2 V2 Hname. unfold client_field_ok in Hname. cbn [fst] in Hname.
  unfold parse_header_line. rewrite (find_colon name (x20 :: value) N2). cbv zeta.
  rewrite (pc_firstn_mid name (x3a :: x20 :: value) _ eq_refl).
  rewrite (pc_skipn_S_mid name x3a (x20 :: value) _ eq_refl).
  rewrite Hname. cbn [negb].
  destruct name as [|c nm] eqn:En; [contradiction N1; reflexivity|]. rewrite <- En in *.
  replace (Nat.eqb (length name) 0) with false by (rewrite En; reflexivity). cbn [orb].
  unfold str_unchecked. rewrite (pc_forallb_impl _ _ _ field_byte_ascii Hname). cbn [bind].
  unfold trim_start. cbn [drop_while is_ows]. rewrite (drop_while_head value (proj1 V2)). reflexivity.
Qed.

(* ------------------------------------------------------------------ the header loop *)
Lemma cr_headers_loop : forall fs fuel acc t,
  forallb wf_field fs = true -> forallb client_field_ok fs = true ->
  cl_ok (content_length acc) fs = true ->
  length fs < fuel ->
  parse_headers_f fuel acc (flat_map render_field fs ++ x0d :: x0a :: t) =
  Ok (fold_left add_pair fs acc, t).
Proof.
  induction fs as [|f fs IH]; intros fuel acc t Hwf Hok Hcl Hfuel.
  - destruct fuel as [|fuel]; [cbn [length] in Hfuel; lia|].
    cbn [flat_map app fold_left parse_headers_f strip_prefix].
    rewrite !pc_eqb_refl. reflexivity.
  - destruct fuel as [|fuel]; [cbn [length] in Hfuel; lia|].
    cbn [forallb] in Hwf, Hok.
    apply andb_true_iff in Hwf. destruct Hwf as [Hf Hwf].
    apply andb_true_iff in Hok. destruct Hok as [Hfo Hok].
    destruct (wf_field_inv f Hf) as (N1 & N2 & V1 & V2).
    destruct f as [name value]. cbn [fst snd] in N1, N2, V1, V2.
    cbn [flat_map fold_left].
    set (more := flat_map render_field fs ++ x0d :: x0a :: t).
    set (line := name ++ x3a :: x20 :: value).
    assert (Ebuf : (render_field (name, value) ++ flat_map render_field fs) ++ x0d :: x0a :: t
                   = (line ++ [x0d]) ++ x0a :: more).
    { unfold render_field, Printer.CRLF, line, more. cbn [fst snd]. rewrite colon_sp.
      rewrite <- !app_assoc. cbn [app]. rewrite <- ?app_assoc. reflexivity. }
    rewrite Ebuf. clear Ebuf.
    cbn [parse_headers_f].
    assert (Estrip : strip_prefix [x0d; x0a] ((line ++ [x0d]) ++ x0a :: more) = None).
    { unfold line. destruct name as [|c nm]; [contradiction N1; reflexivity|].
      cbn [forallb] in N2. apply andb_true_iff in N2. destruct N2 as [Hc _].
      apply andb_true_iff in Hc. destruct Hc as [Hc _]. apply andb_true_iff in Hc. destruct Hc as [_ Hc].
      apply negb_true_iff in Hc. rewrite byte_eqb_comm in Hc.
      cbn [app strip_prefix]. rewrite Hc. reflexivity. }
    rewrite Estrip. clear Estrip.
    assert (Hnl : forallb (nb x0a) (line ++ [x0d]) = true).
    { apply nolf_nb. unfold line. rewrite !nolf_app, (name_nolf name N2).
      change (x3a :: x20 :: value) with ([x3a; x20] ++ value).
      rewrite nolf_app, (no_crlf_nolf value V1). reflexivity. }
    rewrite (pc_find_index_skip (Byte.eqb x0a) (line ++ [x0d]) x0a more Hnl (pc_eqb_refl x0a)).
    rewrite app_length. cbn [length]. rewrite Nat.add_1_r.
    cbn [Nat.eqb Nat.sub]. rewrite Nat.sub_0_r.
    rewrite <- app_assoc. cbn [app].
    rewrite (pc_nth_mid line x0d (x0a :: more) _ eq_refl).
    rewrite pc_eqb_refl. cbn [negb].
    rewrite (pc_firstn_mid line (x0d :: x0a :: more) _ eq_refl).
    unfold line at 1. rewrite (cr_header_line name value N1 N2 V2 Hfo). cbn [bind].
    cbn [cl_ok fst snd] in Hcl.
    replace (skipn (S (S (length line))) (line ++ x0d :: x0a :: more)) with more.
    2:{ change (line ++ x0d :: x0a :: more) with (line ++ [x0d] ++ x0a :: more).
        rewrite app_assoc. symmetry. apply pc_skipn_S_mid. rewrite app_length. cbn [length]. lia. }
    assert (Hstep : eq_ic name CONTENT_LENGTH &&
              match parse_content_length value, content_length acc with
              | None, _ => true
              | Some n, Some m => negb (N.eqb n m)
              | Some _, None => false
              end = false
            /\ cl_ok (content_length (add acc name value)) fs = true).
    { rewrite pc_add_cl. destruct (eq_ic name CONTENT_LENGTH); cbn [andb].
      - destruct (parse_content_length value) as [x|]; [|discriminate Hcl].
        destruct (content_length acc) as [m|].
        + apply andb_true_iff in Hcl. destruct Hcl as [H1 H2]. rewrite H1. split; [reflexivity|exact H2].
        + split; [reflexivity|exact Hcl].
      - split; [reflexivity|exact Hcl]. }
    destruct Hstep as [Hchk Hcl'].
    rewrite Hchk.
    unfold more. rewrite (IH fuel (add acc name value) t Hwf Hok Hcl').
    + reflexivity.
    + cbn [length] in Hfuel. lia.
Qed.

Lemma cr_parse_headers fields t :
  forallb wf_field fields = true -> forallb client_field_ok fields = true ->
  HttpGrammar.cl_consistent fields = true ->
  parse_headers (flat_map render_field fields ++ x0d :: x0a :: t) = Ok (headers_of fields, t).
Proof.
  intros Hwf Hok Hcl. unfold parse_headers.
  change (headers_of fields) with (fold_left add_pair fields new_headers).
  apply cr_headers_loop.
  - exact Hwf.
  - exact Hok.
  - apply pc_cl_consistent_ok. exact Hcl.
  - rewrite app_length. pose proof (render_fields_length fields). lia.
Qed.

(* ------------------------------------------------------------------ the whole head *)
Lemma cr_offset l t : offset_of (l ++ t) t = Ok (length l).
Proof.
  unfold offset_of. rewrite app_length.
  rewrite (proj2 (Nat.leb_le (length t) (length l + length t))) by lia.
  rewrite Nat.add_sub. reflexivity.
Qed.

Definition printed_head (code : N) (reason : bytes) (fields : list (bytes * bytes)) : bytes :=
  status_line code reason ++ flat_map render_field fields ++ PCRLF.

Theorem parse_printed_head code reason fields t :
  (100 <= code <= 999)%N -> client_reason_ok reason = true ->
  forallb wf_field fields = true -> forallb client_field_ok fields = true ->
  HttpGrammar.cl_consistent fields = true ->
  parse_response (printed_head code reason fields ++ t) =
  Ok {| r_version := 1; r_code := code; r_reason := reason; r_hdrs := headers_of fields;
        r_offset := length (printed_head code reason fields) |}.
Proof.
  intros Hc Hr Hwf Hok Hcl. unfold client_reason_ok in Hr.
  set (r3 := flat_map render_field fields ++ x0d :: x0a :: t).
  assert (Hv : parse_version (printed_head code reason fields ++ t) =
               Ok (1%N, x20 :: (u16_to_ascii code ++ reason ++ x0d :: x0a :: r3))).
  { unfold printed_head, r3, Printer.CRLF. rewrite <- !app_assoc. rewrite status_line_shape.
    apply (pc_parse_version true). }
  unfold parse_response. rewrite Hv. cbn [bind]. rewrite pc_eqb_refl. cbn [negb].
  rewrite (status_parse code reason r3 Hc Hr). cbn [bind].
  unfold r3. rewrite (cr_parse_headers fields t Hwf Hok Hcl). cbn [bind].
  rewrite cr_offset. cbn [bind]. reflexivity.
Qed.

Theorem parse_bad_reason code reason more : (100 <= code <= 999)%N ->
  no_crlf reason = true -> client_reason_ok reason = false ->
  parse_response (status_line code reason ++ more) = Err EStatus.
Proof.
  intros Hc Hn Hr. unfold client_reason_ok in Hr.
  assert (Hv : parse_version (status_line code reason ++ more) =
               Ok (1%N, x20 :: (u16_to_ascii code ++ reason ++ x0d :: x0a :: more))).
  { rewrite status_line_shape. apply (pc_parse_version true). }
  unfold parse_response. rewrite Hv. cbn [bind]. rewrite pc_eqb_refl. cbn [negb].
  rewrite (status_parse_bad code reason more Hc Hn Hr). reflexivity.
Qed.

(* ------------------------------------------------------------------ the collection the parser reports *)
Lemma headers_of_facts X :
  stored (headers_of X) = filter (fun f => negb (is_clf f)) X /\
  Headers.chunked (headers_of X) = existsb (fun f => has_token_loop (bs "chunked") (snd f)) (filter is_te X) /\
  content_length (headers_of X) =
    match rev (filter is_clf X) with [] => None | cl :: _ => cl_value (snd cl) end.
Proof.
  change (headers_of X) with (fold_left add_field X new_headers).
  destruct (fold_add_facts X new_headers) as (F1 & F2 & F3 & _).
  rewrite F1, F2, F3. repeat split; reflexivity.
Qed.

(* ------------------------------------------------------------------ reading the body *)
Definition positive_sizes (sizes : list N) : Prop := Forall (fun k => (0 < k)%N) sizes.

Section Receive.
Variables (code : N) (reason : bytes) (fields : list (bytes * bytes)).
Hypothesis Hc : (100 <= code <= 999)%N.
Hypothesis Hr : client_reason_ok reason = true.
Hypothesis Hwf : forallb wf_field fields = true.
Hypothesis Hok : forallb client_field_ok fields = true.
Hypothesis Hcl : HttpGrammar.cl_consistent fields = true.

Let Hd := printed_head code reason fields.
Let h := headers_of fields.

(* length-delimited: [pre] is what the head buffer holds behind the head *)
Lemma receive_cl pre stream sizes body :
  Headers.chunked h = false -> content_length h = Some (N.of_nat (length body)) ->
  pre ++ concat stream = body -> positive_sizes sizes -> length body < length sizes ->
  client_receive_from (Hd ++ pre) stream sizes = Some (code, reason, h, body).
Proof.
  intros Hch Hlen Hpre Hpos Hsz. unfold client_receive_from, Hd.
  rewrite (parse_printed_head code reason fields pre Hc Hr Hwf Hok Hcl).
  cbn [r_offset r_hdrs r_code r_reason]. fold h. cbv zeta.
  rewrite (pc_skipn_mid (printed_head code reason fields) pre _ eq_refl).
  unfold from_response. rewrite Hch, Hlen.
  destruct (N.eqb_spec (N.of_nat (length body)) 0) as [E|E].
  - destruct body as [|b body]; [|cbn [length] in E; lia].
    destruct sizes as [|k sizes]; [cbn [length] in Hsz; lia|].
    unfold new_empty. cbn [read_all body_read]. reflexivity.
  - assert (spec_fixed (N.of_nat (length body)) (pre ++ concat stream) = Valid body []) as Hs.
    { rewrite Hpre. unfold spec_fixed. pose proof (BodySpec.take_n_app body []) as T.
      rewrite app_nil_r in T. rewrite T. reflexivity. }
    pose proof (fixed_read_valid pre stream sizes _ body [] Hs Hpos Hsz) as R.
    destruct (read_all (new_fixed pre stream (N.of_nat (length body))) sizes []) as [[data oc] b'].
    cbn [fst] in R. injection R as R1 R2. subst data oc. reflexivity.
Qed.

(* chunked: the printer's chunks, then the last chunk *)
Lemma receive_chunks pre stream sizes cs :
  Headers.chunked h = true ->
  pre ++ concat stream = flat_map Printer.chunk cs ++ LAST_CHUNK ->
  Forall (fun c => c <> []) cs -> (N.of_nat (length (concat cs)) < 2 ^ 64)%N ->
  positive_sizes sizes -> length (concat cs) < length sizes ->
  client_receive_from (Hd ++ pre) stream sizes = Some (code, reason, h, concat cs).
Proof.
  intros Hch Hpre Hne Hlt Hpos Hsz. unfold client_receive_from, Hd.
  rewrite (parse_printed_head code reason fields pre Hc Hr Hwf Hok Hcl).
  cbn [r_offset r_hdrs r_code r_reason]. fold h. cbv zeta.
  rewrite (pc_skipn_mid (printed_head code reason fields) pre _ eq_refl).
  unfold from_response. rewrite Hch.
  assert (spec_decode (pre ++ concat stream) = Valid (concat cs) []) as Hs.
  { rewrite Hpre. pose proof (chunks_decode cs [] Hne Hlt) as D. rewrite app_nil_r in D. exact D. }
  pose proof (chunked_read_valid pre stream sizes _ [] Hs Hpos Hsz) as R.
  destruct (read_all (new_chunked pre stream) sizes []) as [[data oc] b'].
  cbn [fst] in R. injection R as R1 R2. subst data oc. reflexivity.
Qed.

End Receive.

(* ------------------------------------------------------------------ one read, or any segmentation *)
(* [received wire res]: the client obtains [res] when the whole response arrives in the one read of
   read_response, and also whenever the head buffer holds at least the head and the rest arrives
   over the stream in arbitrary segments and is read with arbitrary non-empty buffers *)
Definition received (wire : bytes) (res : N * bytes * headers * bytes) : Prop :=
  client_receive wire = Some res /\
  exists head_len, head_len <= length wire /\
    forall k stream sizes, head_len <= k -> concat stream = skipn k wire ->
      positive_sizes sizes -> length (snd res) < length sizes ->
      client_receive_from (firstn k wire) stream sizes = Some res.

Lemma read_sizes_positive wire : positive_sizes (read_sizes wire).
Proof.
  unfold positive_sizes, read_sizes. apply Forall_forall. intros k Hk.
  apply repeat_spec in Hk. subst k. reflexivity.
Qed.

Lemma received_of_shape Hd B res :
  (forall pre stream sizes, pre ++ concat stream = B -> positive_sizes sizes ->
     length (snd res) < length sizes -> client_receive_from (Hd ++ pre) stream sizes = Some res) ->
  length (snd res) <= length B ->
  received (Hd ++ B) res.
Proof.
  intros H Hlen. split.
  - unfold client_receive. apply H.
    + cbn [concat]. apply app_nil_r.
    + apply read_sizes_positive.
    + unfold read_sizes. rewrite repeat_length, app_length. lia.
  - exists (length Hd). split; [rewrite app_length; lia|].
    intros k stream sizes Hk Hst Hpos Hsz.
    rewrite (firstn_app_le k Hd B Hk). apply H; [|exact Hpos|exact Hsz].
    rewrite Hst, skipn_app, (skipn_all2 Hd Hk). cbn [app]. apply firstn_skipn.
Qed.

Lemma chunk_length d : length d <= length (Printer.chunk d).
Proof. unfold Printer.chunk. rewrite !app_length. lia. Qed.

Lemma chunks_length cs : length (concat cs) <= length (flat_map Printer.chunk cs ++ LAST_CHUNK).
Proof.
  rewrite app_length. induction cs as [|c cs IH]; cbn [concat flat_map length]; [lia|].
  rewrite !app_length. pose proof (chunk_length c). lia.
Qed.
