(* Proofs for C20, continued: the bytes the server carries from one request to the next (fix F20c:
   Model/Server.v carry_of / with_carry / after_drop) are bounded by a constant.
   What the body reader holds beyond the end of the body when it is dropped is the BufReader's buffer
   (at most BUF_SIZE, Proofs/Memory.v) and the unread part of the leftover slice; the leftover only ever
   shrinks, and while any of it is unread the BufReader's buffer holds bytes of the leftover only.  So the carry
   is at most max(BUF_SIZE, |leftover|) <= BUF_SIZE + |leftover| bytes, and |leftover| <= |head buffer| <= the
   configured head limit. *)
From KV Require Import Lib.Bytes Lib.Utf8 Model.Headers Model.Parser Model.Body Model.Server
  Model.Memory Proofs.BodyBase Proofs.ServerHead Proofs.Memory.

(* ------------------------------------------------------------------ an invariant of the source carried through every operation *)
(* Any property of the byte source kept by the three BufReader primitives is kept by every operation of a
   body reader (the chain of Proofs/Memory.v for [Small], for an arbitrary property). *)
Section SrcInv.
Variable P : src -> Prop.
Hypothesis P_fill_buf : forall s, P s -> P (fill_buf s).
Hypothesis P_consume : forall n s, P s -> P (consume n s).
Hypothesis P_buf_read : forall k s out s', P s -> buf_read k s = (out, s') -> P s'.

Lemma P_read_exact_loop : forall fuel n s acc x s', P s ->
  read_exact_loop fuel n s acc = Some (x, s') -> P s'.
Proof.
  induction fuel as [|fuel IH]; intros n s acc x s' HS H.
  - cbn [read_exact_loop] in H. destruct (N.eqb n 0); [|discriminate H].
    injection H as H1 H2. subst s'. exact HS.
  - cbn [read_exact_loop] in H. destruct (N.eqb n 0).
    + injection H as H1 H2. subst s'. exact HS.
    + destruct (buf_read n s) as [out s1] eqn:Ebr.
      apply (P_buf_read _ _ _ _ HS) in Ebr.
      destruct out as [|o out]; [discriminate H|].
      exact (IH _ _ _ _ _ Ebr H).
Qed.

Lemma P_read_exact n s x s' : P s -> read_exact n s = Some (x, s') -> P s'.
Proof.
  intros HS. unfold read_exact. destruct (N.leb n (lenN (firstnN n (bbuf s)))).
  - intros H. injection H as H1 H2. subst s'. apply P_consume, HS.
  - apply P_read_exact_loop. exact HS.
Qed.

Lemma P_read_until_lf : forall fuel s acc line s', P s ->
  read_until_lf fuel s acc = (line, s') -> P s'.
Proof.
  induction fuel as [|fuel IH]; intros s acc line s' HS H.
  - cbn [read_until_lf] in H. injection H as H1 H2. subst s'. exact HS.
  - cbn [read_until_lf] in H. apply P_fill_buf in HS.
    destruct (find_index (Byte.eqb x0a) (bbuf (fill_buf s))) as [i|].
    + injection H as H1 H2. subst s'. apply P_consume, HS.
    + destruct (bbuf (fill_buf s)) as [|y bb] eqn:Eb.
      * injection H as H1 H2. subst s'. exact HS.
      * apply (IH _ _ _ _ (P_consume _ _ HS) H).
Qed.

Lemma P_read_line s r s' : P s -> read_line s = (r, s') -> P s'.
Proof.
  intros HS. unfold read_line. destruct (read_until_lf (sfuel s) s []) as [line s1] eqn:E.
  apply (P_read_until_lf _ _ _ _ _ HS) in E.
  destruct (utf8_valid line); intros H; injection H as H1 H2; subst s'; exact E.
Qed.

Lemma P_read_chunk_size c : P (c_src c) -> P (c_src (res_st (read_chunk_size c))).
Proof.
  intros HS. unfold read_chunk_size. destruct (read_line (c_src c)) as [r s'] eqn:E.
  apply (P_read_line _ _ _ HS) in E. cbv zeta.
  repeat match goal with
         | |- context [match ?x with _ => _ end] => destruct x
         end; cbn [res_st c_src]; exact E.
Qed.

Lemma P_trailer_loop : forall fuel s, P s -> P (snd (trailer_loop fuel s)).
Proof.
  induction fuel as [|fuel IH]; intros s HS; [exact HS|].
  cbn [trailer_loop]. destruct (read_line s) as [r s'] eqn:E.
  apply (P_read_line _ _ _ HS) in E.
  destruct r as [line|e]; [|exact E].
  destruct line as [|b l]; [exact E|].
  destruct (bytes_eqb (b :: l) [x0d; x0a] || bytes_eqb (b :: l) [x0a]); [exact E|].
  apply IH, E.
Qed.

Lemma P_advance : forall fuel c, P (c_src c) -> P (c_src (res_st (advance fuel c))).
Proof.
  induction fuel as [|fuel IH]; intros c HS; [exact HS|].
  cbn [advance]. destruct (c_state c).
  - pose proof (P_read_chunk_size c HS) as HR.
    destruct (read_chunk_size c) as [o c'|e c'].
    + apply IH. exact HR.
    + exact HR.
  - destruct (N.eqb (c_remaining c) 0); [|exact HS]. apply IH. exact HS.
  - destruct (read_exact 2%N (c_src c)) as [[crlf s']|] eqn:E; [|exact HS].
    apply (P_read_exact _ _ _ _ HS) in E.
    destruct (bytes_eqb crlf [x0d; x0a]); [|exact E]. apply IH. exact E.
  - pose proof (P_trailer_loop (sfuel (c_src c)) (c_src c) HS) as HT.
    destruct (trailer_loop (sfuel (c_src c)) (c_src c)) as [[e|] s']; cbn [snd] in HT.
    + exact HT.
    + apply IH. exact HT.
  - exact HS.
Qed.

Lemma P_chunked_read_loop : forall fuel k c w, P (c_src c) ->
  P (c_src (res_st (chunked_read_loop fuel k c w))).
Proof.
  induction fuel as [|fuel IH]; intros k c w HS; [exact HS|].
  cbn [chunked_read_loop].
  pose proof (P_advance (adv_fuel c) c HS) as HA.
  destruct (advance (adv_fuel c) c) as [o c1|e c1]; cbn [res_st] in HA; [|exact HA].
  assert (P (c_src (res_st (
    if N.eqb k 0 then ROk w c1
    else
      let to_read := N.min (c_remaining c1) k in
      let '(out, s') := buf_read to_read (c_src c1) in
      match out with
      | [] => RErr EUnexpectedEof {| c_src := s'; c_state := c_state c1; c_remaining := c_remaining c1 |}
      | _ =>
          let n := lenN out in
          let c2 := {| c_src := s'; c_state := c_state c1; c_remaining := (c_remaining c1 - n)%N |} in
          if N.eqb (c_remaining c2) 0 || N.eqb (k - n) 0 then ROk (w ++ out) c2
          else chunked_read_loop fuel (k - n)%N c2 (w ++ out)
      end)))) as HG.
  { destruct (N.eqb k 0); [exact HA|]. cbv zeta.
    destruct (buf_read (N.min (c_remaining c1) k) (c_src c1)) as [out s'] eqn:Ebr.
    apply (P_buf_read _ _ _ _ HA) in Ebr.
    destruct out as [|y ys]; [exact Ebr|].
    match goal with |- context [if ?x then _ else _] => destruct x end; [exact Ebr|].
    apply IH. exact Ebr. }
  destruct (c_state c1); try exact HG. exact HA.
Qed.

Lemma P_body_read k b : P (body_src b) -> P (body_src (res_st (body_read k b))).
Proof.
  intros HS. destruct b as [r|c|s|s]; cbn [body_read body_src] in *.
  - unfold fixed_read. destruct (N.eqb (f_remaining r) 0 || N.eqb k 0)%bool; [exact HS|]. cbv zeta.
    destruct (buf_read (N.min (f_remaining r) k) (f_src r)) as [out s'] eqn:Ebr.
    apply (P_buf_read _ _ _ _ HS) in Ebr.
    destruct out as [|x o]; exact Ebr.
  - unfold chunked_read.
    pose proof (P_chunked_read_loop (sfuel (c_src c)) k c [] HS) as HC.
    destruct (chunked_read_loop (sfuel (c_src c)) k c []) as [o c'|e c']; exact HC.
  - destruct (buf_read k s) as [out s'] eqn:Ebr.
    apply (P_buf_read _ _ _ _ HS) in Ebr. exact Ebr.
  - exact HS.
Qed.

Lemma P_body_fill_buf b : P (body_src b) -> P (body_src (res_st (body_fill_buf b))).
Proof.
  intros HS. destruct b as [r|c|s|s]; cbn [body_fill_buf body_src] in *.
  - unfold fixed_fill_buf. destruct (N.eqb (f_remaining r) 0); [exact HS|]. cbv zeta.
    apply P_fill_buf in HS.
    destruct (bbuf (fill_buf (f_src r))); exact HS.
  - unfold chunked_fill_buf.
    pose proof (P_advance (adv_fuel c) c HS) as HA.
    destruct (advance (adv_fuel c) c) as [o c1|e c1]; cbn [res_st] in HA; [|exact HA].
    pose proof (P_fill_buf _ HA) as HF.
    destruct (c_state c1); cbv zeta; try exact HA;
      destruct (bbuf (fill_buf (c_src c1))); exact HF.
  - apply P_fill_buf, HS.
  - exact HS.
Qed.

Lemma P_body_consume n b : P (body_src b) -> P (body_src (body_consume n b)).
Proof.
  intros HS. destruct b as [r|c|s|s]; cbn [body_consume body_src fixed_consume chunked_consume f_src c_src] in *;
    try (apply P_consume, HS). exact HS.
Qed.

Lemma P_bstep b o : P (body_src b) -> P (body_src (bstep b o)).
Proof.
  intros HS. destruct o as [k| |n]; cbn [bstep].
  - pose proof (P_body_read k b HS) as H. destruct (body_read k b); exact H.
  - pose proof (P_body_fill_buf b HS) as H. destruct (body_fill_buf b); exact H.
  - apply P_body_consume, HS.
Qed.

Lemma P_run : forall ops b, P (body_src b) -> P (body_src (fold_left bstep ops b)).
Proof.
  induction ops as [|o ops IH]; intros b HS; [exact HS|].
  cbn [fold_left]. apply IH, P_bstep, HS.
Qed.

Lemma P_drain : forall fuel b, P (body_src b) -> P (body_src (drain fuel b)).
Proof.
  induction fuel as [|f IH]; intros b HS; [exact HS|].
  cbn [drain]. pose proof (P_body_read 1024%N b HS) as HR.
  destruct b as [r|c|s|s]; try exact HS;
    (destruct (body_read 1024%N _) as [o b'|e b']; cbn [res_st] in HR; [|exact HR];
     destruct o as [|x o]; [exact HR|apply IH, HR]).
Qed.
End SrcInv.

(* ------------------------------------------------------------------ the leftover invariant *)
(* Either the leftover slice has been replayed completely, or what the BufReader holds came from it: buffer and
   unread leftover together are (a suffix of) the original leftover, at most L bytes. *)
Definition LoInv (L : nat) (s : src) : Prop := lo s = [] \/ length (bbuf s) + length (lo s) <= L.

Lemma length_firstnN_skipnN k l : length (firstnN k l) + length (skipnN k l) = length l.
Proof. rewrite <- app_length, firstnN_skipnN. reflexivity. Qed.

Lemma inner_read_lo k l sg out l' sg' : inner_read k l sg = (out, l', sg') ->
  l' = [] \/ length out + length l' = length l.
Proof.
  unfold inner_read. destruct l as [|x l].
  - destruct (stream_read k sg) as [o s2]. intros H. injection H as H1 H2 H3. left. symmetry. exact H2.
  - intros H. injection H as H1 H2 H3. subst out l'. right. exact (length_firstnN_skipnN k (x :: l)).
Qed.

Lemma take_read_lo k s out l' sg' tk : take_read k s = (out, l', sg', tk) ->
  l' = [] \/ length out + length l' = length (lo s).
Proof.
  unfold take_read. destruct (stake s) as [lim|].
  - destruct (N.eqb lim 0).
    + intros H. injection H as H1 H2 H3 H4. subst out l'. right. reflexivity.
    + destruct (inner_read (N.min k lim) (lo s) (segs s)) as [[o l1] sg1] eqn:E.
      intros H. injection H as H1 H2 H3 H4. subst o l1. exact (inner_read_lo _ _ _ _ _ _ E).
  - destruct (inner_read k (lo s) (segs s)) as [[o l1] sg1] eqn:E.
    intros H. injection H as H1 H2 H3 H4. subst o l1. exact (inner_read_lo _ _ _ _ _ _ E).
Qed.

Lemma LoInv_fill_buf L s : LoInv L s -> LoInv L (fill_buf s).
Proof.
  intros HS. unfold fill_buf. destruct (bbuf s) as [|x b] eqn:Eb; [|exact HS].
  destruct (take_read BUF_SIZE s) as [[[out l'] sg'] tk] eqn:E.
  apply take_read_lo in E. unfold LoInv in *. cbn [bbuf lo]. rewrite Eb in HS. cbn [length] in HS.
  destruct E as [E|E]; [left; exact E|].
  destruct HS as [HS|HS].
  - rewrite HS in E. cbn [length] in E. left. destruct l'; [reflexivity|cbn [length] in E; lia].
  - right. lia.
Qed.

Lemma LoInv_consume L n s : LoInv L s -> LoInv L (consume n s).
Proof.
  unfold LoInv, consume. cbn [bbuf lo]. intros [HS|HS]; [left; exact HS|right].
  pose proof (length_firstnN_skipnN n (bbuf s)) as HL. lia.
Qed.

Lemma LoInv_buf_read L k s out s' : LoInv L s -> buf_read k s = (out, s') -> LoInv L s'.
Proof.
  intros HS. unfold buf_read. destruct (bbuf s) as [|x b] eqn:Eb.
  - destruct (N.leb BUF_SIZE k).
    + destruct (take_read k s) as [[[o l'] sg'] tk] eqn:E. intros H. injection H as H1 H2. subst s'.
      apply take_read_lo in E. unfold LoInv in *. cbn [bbuf lo length]. rewrite Eb in HS. cbn [length] in HS.
      destruct E as [E|E]; [left; exact E|].
      destruct HS as [HS|HS].
      * rewrite HS in E. cbn [length] in E. left. destruct l'; [reflexivity|cbn [length] in E; lia].
      * right. lia.
    + intros H. injection H as H1 H2. subst s'. apply LoInv_consume, LoInv_fill_buf, HS.
  - intros H. injection H as H1 H2. subst s'. apply LoInv_consume, HS.
Qed.

Lemma LoInv_run L ops b : LoInv L (body_src b) -> LoInv L (body_src (fold_left bstep ops b)).
Proof. apply P_run; [apply LoInv_fill_buf | apply LoInv_consume | apply LoInv_buf_read]. Qed.

Lemma LoInv_drain L fuel b : LoInv L (body_src b) -> LoInv L (body_src (drain fuel b)).
Proof. apply P_drain; [apply LoInv_fill_buf | apply LoInv_consume | apply LoInv_buf_read]. Qed.

(* ------------------------------------------------------------------ the carry of a reader *)
Lemma carry_of_bound L s : Small s -> LoInv L s -> length (carry_of s) <= Nat.max 4096 L.
Proof.
  unfold Small, LoInv, carry_of, lenN, BUF_SIZE. intros HS HL. rewrite app_length.
  change 4096 with (N.to_nat 4096).
  destruct HL as [HL|HL]; [rewrite HL; cbn [length]|]; lia.
Qed.

Definition fresh_reader (leftover : bytes) (st : list bytes) (b0 : body) : Prop :=
  b0 = new_chunked leftover st \/ (exists n, b0 = new_fixed leftover st n) \/ b0 = new_eof leftover st \/ b0 = new_empty leftover st.

Lemma fresh_Small leftover st b0 : fresh_reader leftover st b0 -> Small (body_src b0).
Proof. intros [H|[[n H]|[H|H]]]; subst b0; apply Small_nil; reflexivity. Qed.

Lemma fresh_LoInv leftover st b0 : fresh_reader leftover st b0 -> LoInv (length leftover) (body_src b0).
Proof. intros [H|[[n H]|[H|H]]]; subst b0; right; cbn; lia. Qed.

(* after ANY use of a fresh reader and the discard of the rest of the body, what would be carried over is at most
   one BufReader buffer or the leftover it started from, whichever is larger *)
Theorem carry_bound_max_gen : forall leftover st ops b0 fuel, fresh_reader leftover st b0 ->
  length (carry_of (body_src (drain fuel (fold_left bstep ops b0)))) <= Nat.max 4096 (length leftover).
Proof.
  intros leftover st ops b0 fuel H0. apply carry_of_bound.
  - apply Small_drain, Small_run, (fresh_Small _ _ _ H0).
  - apply LoInv_drain, LoInv_run, (fresh_LoInv _ _ _ H0).
Qed.

Theorem carry_bound_gen : forall leftover st ops b0 fuel, fresh_reader leftover st b0 ->
  length (carry_of (body_src (drain fuel (fold_left bstep ops b0)))) <= 4096 + length leftover.
Proof.
  intros leftover st ops b0 fuel H0. pose proof (carry_bound_max_gen leftover st ops b0 fuel H0) as H. lia.
Qed.

Lemma from_request_fresh leftover sg h : fresh_reader leftover sg (from_request leftover sg h).
Proof.
  unfold from_request, fresh_reader. destruct (Headers.chunked h); [left; reflexivity|].
  destruct (content_length h) as [n|]; [|right; right; right; reflexivity].
  destruct (N.eqb n 0); [right; right; right; reflexivity|right; left; exists n; reflexivity].
Qed.

(* the readers handle_one_request builds (chunked, fixed, empty) *)
Theorem carry_bound_max : forall leftover sg h ops fuel,
  length (carry_of (body_src (drain fuel (fold_left bstep ops (from_request leftover sg h))))) <= Nat.max 4096 (length leftover).
Proof. intros. apply (carry_bound_max_gen leftover sg). apply from_request_fresh. Qed.

Theorem carry_bound : forall leftover sg h ops fuel,
  length (carry_of (body_src (drain fuel (fold_left bstep ops (from_request leftover sg h))))) <= 4096 + length leftover.
Proof. intros. apply (carry_bound_gen leftover sg). apply from_request_fresh. Qed.

(* ------------------------------------------------------------------ the request loop *)
(* what the handlers of Model/Server.v do to the reader is a sequence of such steps *)
Lemma read_to_end_ops : forall fuel b acc, exists ops, snd (read_to_end fuel b acc) = fold_left bstep ops b.
Proof.
  induction fuel as [|fuel IH]; intros b acc; [exists []; reflexivity|].
  cbn [read_to_end]. destruct (body_read 8192%N b) as [out b'|e b'] eqn:E.
  - destruct out as [|x out].
    + exists [BRead 8192%N]. cbn [fold_left bstep snd]. rewrite E. reflexivity.
    + destruct (IH b' (acc ++ x :: out)) as [ops H]. exists (BRead 8192%N :: ops).
      cbn [fold_left bstep]. rewrite E. exact H.
  - exists [BRead 8192%N]. cbn [fold_left bstep snd]. rewrite E. reflexivity.
Qed.

Lemma read_k_ops : forall fuel k b acc, exists ops, snd (read_k fuel k b acc) = fold_left bstep ops b.
Proof.
  induction fuel as [|fuel IH]; intros k b acc; [exists []; reflexivity|].
  cbn [read_k]. destruct (N.eqb k 0); [exists []; reflexivity|].
  destruct (body_read k b) as [out b'|e b'] eqn:E.
  - destruct out as [|x out].
    + exists [BRead k]. cbn [fold_left bstep snd]. rewrite E. reflexivity.
    + destruct (IH (k - lenN (x :: out))%N b' (acc ++ x :: out)) as [ops H]. exists (BRead k :: ops).
      cbn [fold_left bstep]. rewrite E. exact H.
  - exists [BRead k]. cbn [fold_left bstep snd]. rewrite E. reflexivity.
Qed.

(* the reader as the handler leaves it: what run_handler drops *)
Definition reader_at_drop (a : app) (r : request) (b : body) : body :=
  match behaviour_of a r with
  | BAll | BFirst => snd (read_to_end (body_fuel b) b [])
  | BReadK k => snd (read_k (body_fuel b) k b [])
  | _ => b
  end.

Lemma reader_at_drop_ops a r b : exists ops, reader_at_drop a r b = fold_left bstep ops b.
Proof.
  unfold reader_at_drop. destruct (behaviour_of a r); try (exists []; reflexivity);
    try apply read_to_end_ops. apply read_k_ops.
Qed.

Lemma run_handler_rest a r b : snd (fst (run_handler a r b)) = after_drop (reader_at_drop a r b).
Proof.
  unfold run_handler, reader_at_drop. destruct (behaviour_of a r); try reflexivity.
  - destruct (read_to_end (body_fuel b) b []) as [[d|e] b']; reflexivity.
  - destruct (read_k (body_fuel b) k b []) as [[d|e] b']; reflexivity.
  - destruct (read_to_end (body_fuel b) b []) as [[d|e] b']; reflexivity.
Qed.

(* the bytes a dropped reader hands to the next read_request: the first segment of after_drop when there are any *)
Definition carry_at_drop (b : body) : bytes := carry_of (body_src (drain (body_fuel b) b)).

Lemma after_drop_carry b :
  after_drop b = with_carry (carry_at_drop b) (segs (body_src (drain (body_fuel b) b))).
Proof. reflexivity. Qed.

(* the reader whose drop ends a request that was parsed and could be framed *)
Definition conn_reader (a : app) (r : request) (buf : bytes) (sg' : list bytes) : body :=
  let b := from_request (skipn (q_offset r) buf) sg' (q_hdrs r) in
  match hook_of a r with HProceed => reader_at_drop a r b | _ => b end.

Lemma conn_reader_ops a r buf sg' : exists ops,
  conn_reader a r buf sg' = fold_left bstep ops (from_request (skipn (q_offset r) buf) sg' (q_hdrs r)).
Proof.
  unfold conn_reader. cbv zeta. destruct (hook_of a r); try (exists []; reflexivity). apply reader_at_drop_ops.
Qed.

Theorem carry_bound_conn_max : forall a N ka sg buf r sg',
  read_request (S (length sg) + length (concat sg)) N [] sg = (RParsed buf r, sg') ->
  te_present (q_hdrs r) && negb (te_final_chunked (q_hdrs r)) = false ->
  o_rest (handle_one_request a N ka sg) = after_drop (conn_reader a r buf sg') /\
  length (carry_at_drop (conn_reader a r buf sg')) <= Nat.max 4096 N.
Proof.
  intros a N ka sg buf r sg' HR HT. split.
  - unfold handle_one_request. unfold bytes in *. rewrite HR. cbv zeta. rewrite HT. unfold conn_reader. cbv zeta.
    destruct (hook_of a r); try reflexivity.
    rewrite <- run_handler_rest.
    destruct (run_handler a r (from_request (skipn (q_offset r) buf) sg' (q_hdrs r))) as [[[resps ok] rest] loc].
    reflexivity.
  - destruct (conn_reader_ops a r buf sg') as [ops E]. unfold carry_at_drop. rewrite E.
    pose proof (carry_bound_max (skipn (q_offset r) buf) sg' (q_hdrs r) ops
                  (body_fuel (fold_left bstep ops (from_request (skipn (q_offset r) buf) sg' (q_hdrs r))))) as HB.
    pose proof (read_request_bound _ N [] _ _ _ _ (Nat.le_0_l N) HR) as HN.
    rewrite skipn_length in HB. lia.
Qed.

Theorem carry_bound_conn : forall a N ka sg buf r sg',
  read_request (S (length sg) + length (concat sg)) N [] sg = (RParsed buf r, sg') ->
  te_present (q_hdrs r) && negb (te_final_chunked (q_hdrs r)) = false ->
  o_rest (handle_one_request a N ka sg) = after_drop (conn_reader a r buf sg') /\
  length (carry_at_drop (conn_reader a r buf sg')) <= 4096 + N.
Proof.
  intros a N ka sg buf r sg' HR HT.
  destruct (carry_bound_conn_max a N ka sg buf r sg' HR HT) as [H1 H2]. split; [exact H1|lia].
Qed.

(* a head that cannot be framed (a Transfer-Encoding whose final coding is not chunked) builds no reader: nothing is carried *)
Theorem carry_none_unframed : forall a N ka sg buf r sg',
  read_request (S (length sg) + length (concat sg)) N [] sg = (RParsed buf r, sg') ->
  te_present (q_hdrs r) && negb (te_final_chunked (q_hdrs r)) = true ->
  o_rest (handle_one_request a N ka sg) = sg' /\ o_keep (handle_one_request a N ka sg) = false.
Proof.
  intros a N ka sg buf r sg' HR HT. split; unfold handle_one_request; unfold bytes in *; rewrite HR; cbv zeta; rewrite HT; reflexivity.
Qed.
