(* Head locality: an accepted request head is accepted from its own bytes alone (the parser needs no
   look-ahead behind the head), and the strict tokenizer does not depend on what follows the head. *)
From KV Require Import Lib.Bytes Lib.Swar Model.Headers Model.Parser Spec.HttpGrammar Spec.ConnSpec.
From KV Require Import Proofs.SwarSpec Proofs.ParserMonoBase Proofs.ParserMonoParts Proofs.ParserMono
  Proofs.ParserSafeBase Proofs.ParserSafeUri Proofs.ParserSafe Proofs.ParserSound.

(* ------------------------------------------------------------------ generic list facts *)
Lemma scl_split_at_app c : forall l t a b, split_at c l = Some (a, b) -> split_at c (l ++ t) = Some (a, b ++ t).
Proof.
  induction l as [|x l IH]; intros t a b H; cbn [split_at app] in *; [discriminate H|].
  destruct (Byte.eqb x c).
  - inversion H; subst. reflexivity.
  - destruct (split_at c l) as [[a' b']|] eqn:E; [|discriminate H].
    inversion H; subst. rewrite (IH t a' b eq_refl). reflexivity.
Qed.

(* if the separator does not occur in [l], a split of [l ++ t] consumes bytes of [t] *)
Lemma scl_split_at_none_app c : forall l t a b, split_at c l = None -> split_at c (l ++ t) = Some (a, b) ->
  length b < length t.
Proof.
  induction l as [|x l IH]; intros t a b Hn H; cbn [split_at app] in *.
  - apply ps_split_at_inv in H. subst t. rewrite app_length. cbn [length]. lia.
  - destruct (Byte.eqb x c); [discriminate Hn|].
    destruct (split_at c l) as [[a' b']|] eqn:E; [discriminate Hn|].
    destruct (split_at c (l ++ t)) as [[a'' b'']|] eqn:E2; [|discriminate H].
    inversion H; subst. eapply IH; [reflexivity | exact E2].
Qed.

Lemma scl_split_at_nosep c : forall l, forallb (fun b => negb (Byte.eqb b c)) l = true -> split_at c l = None.
Proof.
  induction l as [|x l IH]; intros H; cbn [split_at forallb] in *; [reflexivity|].
  apply andb_true_iff in H. destruct H as [H1 H2]. apply negb_true_iff in H1. rewrite H1, (IH H2). reflexivity.
Qed.

Lemma scl_find_index_none_split c : forall l, find_index (Byte.eqb c) l = None -> split_at c l = None.
Proof.
  induction l as [|x l IH]; intros H; cbn [find_index split_at] in *; [reflexivity|].
  rewrite (ps_beqb_sym x c). destruct (Byte.eqb c x); [discriminate H|].
  destruct (find_index (Byte.eqb c) l); [discriminate H|]. rewrite (IH eq_refl). reflexivity.
Qed.

Lemma scl_find_index_app_inv {A} (p : A -> bool) : forall l t i, find_index p (l ++ t) = Some i -> i < length l ->
  find_index p l = Some i.
Proof.
  induction l as [|x l IH]; intros t i H Hi; cbn [length] in Hi; [lia|].
  cbn [app find_index] in *. destruct (p x); [exact H|].
  destruct (find_index p (l ++ t)) as [j|] eqn:E; cbn [option_map] in H; [|discriminate H].
  inversion H; subst i. rewrite (IH t j E ltac:(lia)). reflexivity.
Qed.

(* a suffix of [x ++ t] that is at least as long as [t] ends with [t] *)
Lemma scl_suffix_tail : forall (p r x t : bytes), p ++ r = x ++ t -> length t <= length r ->
  exists r', r = r' ++ t /\ x = p ++ r'.
Proof.
  induction p as [|a p IH]; intros r x t H L; cbn [app] in H.
  - exists x. split; [exact H | reflexivity].
  - destruct x as [|b x]; cbn [app] in H.
    + subst t. cbn [length] in L. rewrite app_length in L. lia.
    + inversion H; subst b. destruct (IH r x t H2 L) as [r' [H3 H4]].
      exists r'. split; [exact H3 | cbn [app]; f_equal; exact H4].
Qed.

Lemma scl_suffix_app r x t : suffix r (x ++ t) -> length t <= length r -> exists r', r = r' ++ t /\ suffix r' x.
Proof.
  intros [p Hp] L. destruct (scl_suffix_tail p r x t (eq_sym Hp) L) as [r' [H1 H2]].
  exists r'. split; [exact H1 | exists p; exact H2].
Qed.

(* ------------------------------------------------------------------ strict tokenizer: extension *)
Lemma scl_take_line_app l t line rest : take_line l = Some (line, rest) -> take_line (l ++ t) = Some (line, rest ++ t).
Proof.
  rewrite !take_line_unfold. intros H.
  destruct (split_at LF l) as [[before rest']|] eqn:E; [|discriminate H].
  rewrite (scl_split_at_app _ _ t _ _ E).
  destruct (rev before) as [|c rb]; [discriminate H|].
  destruct c; try discriminate H. inversion H; subst. reflexivity.
Qed.

Lemma scl_strict_fields_app : forall fuel l t fs rest, strict_fields fuel l = Some (fs, rest) ->
  strict_fields fuel (l ++ t) = Some (fs, rest ++ t).
Proof.
  induction fuel as [|fuel IH]; intros l t fs rest H; [discriminate H|].
  rewrite ps_strict_fields_eq in *.
  destruct (strip_prefix [x0d; x0a] l) as [rest0|] eqn:Es.
  { inversion H; subst. rewrite (strip_prefix_app _ _ t _ Es). reflexivity. }
  unfold strict_fields_body in *.
  destruct (take_line l) as [[line rest1]|] eqn:Et; [|discriminate H].
  assert (Hn : strip_prefix [x0d; x0a] (l ++ t) = None).
  { destruct (strip_prefix_none_app _ _ t Es) as [Hx | [Ha Hb]]; [exact Hx|]. exfalso.
    apply ps_take_line_inv in Et. cbn [length] in Hb.
    destruct l as [|c l]; [destruct line; discriminate Et|].
    destruct l as [|d l]; [|cbn [length] in Hb; lia].
    cbn [length firstn] in Ha. inversion Ha; subst c.
    destruct line as [|c line]; [discriminate Et|]. cbn [app] in Et. inversion Et.
    destruct line; discriminate. }
  rewrite Hn, (scl_take_line_app _ t _ _ Et).
  destruct (split_at x3a line) as [[name raw]|]; [|discriminate H].
  destruct (nonempty name && forallb is_tchar name); [|discriminate H].
  destruct (strict_fields fuel rest1) as [[fs1 rest2]|] eqn:Er; [|discriminate H].
  inversion H; subst. rewrite (IH _ t _ _ Er). reflexivity.
Qed.

(* more fuel gives the same accepted result *)
Lemma scl_strict_fields_fuel : forall n l m x, strict_fields n l = Some x -> n <= m -> strict_fields m l = Some x.
Proof.
  induction n as [|n IH]; intros l m x H Hm; [discriminate H|].
  destruct m as [|m]; [lia|].
  rewrite ps_strict_fields_eq in *.
  destruct (strip_prefix [x0d; x0a] l); [exact H|].
  unfold strict_fields_body in *.
  destruct (take_line l) as [[line rest1]|]; [|discriminate H].
  destruct (split_at x3a line) as [[name raw]|]; [|discriminate H].
  destruct (nonempty name && forallb is_tchar name); [|discriminate H].
  destruct (strict_fields n rest1) as [[fs1 rest2]|] eqn:Er; [|discriminate H].
  rewrite (IH _ m _ Er ltac:(lia)). exact H.
Qed.

Lemma strict_head_app : forall s t sh n, strict_head s = Some (sh, n) -> strict_head (s ++ t) = Some (sh, n).
Proof.
  intros s t sh n H. unfold strict_head, SP in *.
  destruct (split_at x20 s) as [[m r1]|] eqn:E1; [|discriminate H].
  rewrite (scl_split_at_app _ _ t _ _ E1).
  destruct (negb (nonempty m && forallb is_tchar m)); [discriminate H|].
  destruct (split_at x20 r1) as [[tg r2]|] eqn:E2; [|discriminate H].
  rewrite (scl_split_at_app _ _ t _ _ E2).
  destruct (negb (nonempty tg && forallb is_vchar tg)); [discriminate H|].
  destruct (strip_prefix (bs "HTTP/1.") r2) as [r3|] eqn:E3; [|discriminate H].
  rewrite (strip_prefix_app _ _ t _ E3).
  apply ps_r3_match in H. destruct H as [d [r4 [Hr3 H]]]. subst r3. cbn [app].
  destruct (Byte.eqb d x31 || Byte.eqb d x30); [|discriminate H].
  destruct (strict_fields (S (length r4)) r4) as [[fs rest]|] eqn:Ef; [|discriminate H].
  apply (scl_strict_fields_app _ _ t) in Ef.
  rewrite (scl_strict_fields_fuel _ _ (S (length (r4 ++ t))) _ Ef) by (rewrite app_length; lia).
  inversion H; subst sh n. f_equal. f_equal.
  apply ps_split_at_inv in E1.
  assert (L : length rest <= length s).
  { apply ps_split_at_inv in E2. apply ps_strip_prefix_inv in E3.
    apply ps_strict_fields_exact in Ef. apply (f_equal (@length byte)) in Ef.
    subst s r1 r2. repeat (rewrite ?app_length in *; cbn [length] in * ). lia. }
  rewrite !app_length. lia.
Qed.

(* ------------------------------------------------------------------ sub-parsers: locality *)
(* Each sub-parser P satisfies:  P (x ++ t) = Ok (v, rest ++ t)  ->  P x = Ok (v, rest):
   when it leaves all of [t] unconsumed it did not need [t]. *)
Lemma scl_local_of_mono {A} (P : bytes -> res (A * bytes)) x t v rest :
  mono P -> P x <> Err EEof -> P (x ++ t) = Ok (v, rest ++ t) -> P x = Ok (v, rest).
Proof.
  intros HM Hne H. rewrite (HM x t Hne) in H.
  destruct (P x) as [[v' r']|e|f]; cbn [ext] in H; try discriminate H.
  inversion H; subst v'. apply app_inv_tail in H2. subst r'. reflexivity.
Qed.

Lemma parse_method_eof x : parse_method x = Err EEof -> split_at x20 x = None.
Proof.
  unfold parse_method. intros H.
  destruct (strip_prefix (bs "GET ") x); [discriminate H|].
  destruct (strip_prefix (bs "POST ") x); [discriminate H|].
  destruct (find_index (Byte.eqb x20) x) as [i|] eqn:E; [|apply scl_find_index_none_split; exact E].
  exfalso. cbv zeta in H.
  repeat match type of H with (if ?c then _ else _) = _ => destruct c; [discriminate H|] end.
  unfold str_unchecked in H. destruct (forallb is_ascii (firstn i x)); cbn [bind] in H; discriminate H.
Qed.

Lemma parse_method_local x t m rest : parse_method (x ++ t) = Ok (m, rest ++ t) -> parse_method x = Ok (m, rest).
Proof.
  intros H. apply (scl_local_of_mono parse_method x t m rest parse_method_mono); [|exact H].
  intros HE. apply parse_method_eof in HE. apply parse_method_sound in H. destruct H as [H _].
  pose proof (scl_split_at_none_app _ _ _ _ _ HE H) as L. rewrite app_length in L. lia.
Qed.

Lemma scl_finish_uri_not_err buf k ps pe e : finish_uri buf k ps pe <> Err e.
Proof. unfold finish_uri. destruct (str_unchecked (firstn k buf)) eqn:E; cbn [bind]; try discriminate.
  unfold str_unchecked in E. destruct (forallb is_ascii (firstn k buf)); discriminate E. Qed.

Lemma scl_sp_eof {A} (o : option byte) (a b : res A) :
  match o with Some x20 => a | Some _ => b | None => Err EEof end = Err EEof ->
  b = Err EEof \/ (o = Some x20 /\ a = Err EEof) \/ o = None.
Proof.
  destruct o as [d|]; [|intros _; right; right; reflexivity].
  destruct d; intros H; try (left; exact H). right; left. split; [reflexivity|exact H].
Qed.

Lemma scl_qsp_eof {A} (o : option byte) (q a b : res A) :
  match o with Some x3f => q | Some x20 => a | Some _ => b | None => Err EEof end = Err EEof ->
  b = Err EEof \/ (o = Some x20 /\ a = Err EEof) \/ (o = Some x3f /\ q = Err EEof) \/ o = None.
Proof.
  destruct o as [d|]; [|intros _; right; right; right; reflexivity].
  destruct d; intros H; try (left; exact H).
  - right; left. split; [reflexivity|exact H].
  - right; right; left. split; [reflexivity|exact H].
Qed.

(* the target scanner reports "incomplete" only on input made of visible bytes: no SP anywhere *)
Lemma parse_uri_eof x : parse_uri x = Err EEof -> forallb is_vchar x = true.
Proof.
  unfold parse_uri. intros H.
  destruct x as [|first rest] eqn:Ebuf; [reflexivity|]. rewrite <- Ebuf in H |- *.
  destruct (Byte.eqb first x2a) eqn:Ea.
  { apply byte_eqb_eq in Ea. subst first.
    apply scl_sp_eof in H. destruct H as [H|[[_ H]|Hn]]; try discriminate H.
    subst x. destruct rest; [reflexivity | discriminate Hn]. }
  assert (Hsc : scan_ok x 0 (if Byte.eqb first x2f then S2Path 0 else step2 false x 0)).
  { destruct (Byte.eqb first x2f); [apply ps_scan_ok_here|]. apply (ps_step2_ok (length x)). lia. }
  remember (if Byte.eqb first x2f then S2Path 0 else step2 false x 0) as sc eqn:Esc.
  destruct sc as [|ps|i]; [discriminate H| |].
  - cbv zeta in H.
    rewrite ?match_uri_vectored_spec, ?match_path_vectored_spec in H.
    destruct Hsc as [k [Hk Hpre]]. cbn [Nat.add] in Hk. subst k.
    set (pt := path_tail (skipn ps x)) in *.
    replace (ps + pt - ps) with pt in H by lia.
    destruct (Nat.ltb (ps + uri_tail (firstn pt (skipn ps x))) (ps + pt)) eqn:Eb.
    { destruct (nth_error x (ps + uri_tail (firstn pt (skipn ps x)))) as [c|]; [destruct (is_crlf_byte c)|]; discriminate H. }
    apply Nat.ltb_ge in Eb.
    assert (Hpath : forallb is_vchar (firstn pt (skipn ps x)) = true).
    { rewrite <- ps_firstn_idem. apply ps_uri_tail_ge. lia. }
    assert (Hi : forallb is_vchar (firstn (ps + pt) x) = true).
    { rewrite ps_firstn_add. apply ps_forallb_app; assumption. }
    apply scl_qsp_eof in H. destruct H as [H|[[_ H]|[[Hn H]|Hn]]]; try discriminate H.
    + exfalso. exact (scl_finish_uri_not_err _ _ _ _ _ H).
    + apply scl_sp_eof in H. destruct H as [H|[[_ H]|Hn2]]; try discriminate H.
      * exfalso. exact (scl_finish_uri_not_err _ _ _ _ _ H).
      * apply nth_error_None in Hn2.
        rewrite <- (firstn_all2 x Hn2).
        rewrite ps_firstn_add. apply ps_forallb_app.
        -- rewrite (ps_firstn_S_nth _ _ _ Hn). apply ps_forallb_app; [exact Hi|reflexivity].
        -- apply ps_uri_tail_ge. lia.
    + apply nth_error_None in Hn. rewrite <- (firstn_all2 x Hn). exact Hi.
  - cbv zeta in H.
    rewrite ?match_uri_vectored_spec, ?match_path_vectored_spec in H.
    destruct Hsc as [k [Hk Hpre]]. cbn [Nat.add] in Hk. subst k.
    apply scl_sp_eof in H. destruct H as [H|[[_ H]|Hn]]; try discriminate H.
    + destruct (Nat.eqb (i + uri_tail (skipn i x)) 0); [discriminate H|].
      exfalso. exact (scl_finish_uri_not_err _ _ _ _ _ H).
    + apply nth_error_None in Hn. rewrite <- (firstn_all2 x Hn).
      rewrite ps_firstn_add. apply ps_forallb_app; [exact Hpre|]. apply ps_uri_tail_ge. lia.
Qed.

Lemma parse_uri_local x t u rest : parse_uri (x ++ t) = Ok (u, rest ++ t) -> parse_uri x = Ok (u, rest).
Proof.
  intros H. apply (scl_local_of_mono parse_uri x t u rest parse_uri_mono); [|exact H].
  intros HE. apply parse_uri_eof in HE. apply parse_uri_sound in H. destruct H as [H _].
  assert (HN : split_at x20 x = None).
  { apply scl_split_at_nosep. eapply ps_forallb_impl; [|exact HE].
    intros b Hb. rewrite (ps_vchar_not_sp _ Hb). reflexivity. }
  pose proof (scl_split_at_none_app _ _ _ _ _ HN H) as L. rewrite app_length in L. lia.
Qed.

Lemma parse_version_local x t v rest : parse_version (x ++ t) = Ok (v, rest ++ t) -> parse_version x = Ok (v, rest).
Proof.
  intros H. apply parse_version_sound in H. destruct H as [d [H Hd]].
  apply ps_strip_prefix_inv in H.
  change (bs "HTTP/1." ++ d :: rest ++ t) with (bs "HTTP/1." ++ (d :: rest) ++ t) in H.
  rewrite app_assoc in H. apply app_inv_tail in H. subst x.
  unfold parse_version. rewrite ps_strip_prefix_app.
  destruct Hd as [[-> ->]|[-> ->]]; reflexivity.
Qed.

Lemma parse_headers_f_local : forall fuel h x t hs rest,
  parse_headers_f fuel h (x ++ t) = Ok (hs, rest ++ t) -> parse_headers_f fuel h x = Ok (hs, rest).
Proof.
  induction fuel as [|fuel IH]; intros h x t hs rest H; [discriminate H|].
  cbn [parse_headers_f] in *.
  destruct (strip_prefix [x0d; x0a] (x ++ t)) as [rest0|] eqn:E1.
  { inversion H; subst. apply ps_strip_prefix_inv in E1.
    rewrite app_assoc in E1. apply app_inv_tail in E1. subst x.
    rewrite ps_strip_prefix_app. reflexivity. }
  destruct (find_index (Byte.eqb x0a) (x ++ t)) as [nl|] eqn:E2; [|discriminate H].
  destruct (Nat.eqb nl 0) eqn:E0; [discriminate H|].
  destruct (nth_error (x ++ t) (nl - 1)) as [c|] eqn:E3; [|discriminate H].
  destruct (negb (Byte.eqb c x0d)) eqn:Ec; [discriminate H|].
  destruct (parse_header_line (firstn (nl - 1) (x ++ t))) as [[name value]|e|f] eqn:El; cbn [bind] in H;
    try discriminate H.
  match type of H with (if ?c then _ else _) = _ => destruct c eqn:Ecl; [discriminate H|] end.
  assert (Lnl : S nl <= length x).
  { pose proof H as H'. apply parse_headers_f_sound in H'. destruct H' as [fs [Hf _]].
    apply ps_strict_fields_exact in Hf. apply (f_equal (@length byte)) in Hf.
    rewrite skipn_length in Hf. rewrite !app_length in Hf. cbn [length] in Hf. lia. }
  assert (S1 : strip_prefix [x0d; x0a] x = None).
  { destruct (strip_prefix [x0d; x0a] x) as [r0|] eqn:Es; [|reflexivity].
    rewrite (strip_prefix_app _ _ t _ Es) in E1. discriminate E1. }
  rewrite S1, (scl_find_index_app_inv _ _ _ _ E2 ltac:(lia)), E0.
  rewrite (firstn_app_le x t (nl - 1)) in El by lia.
  rewrite nth_error_app1 in E3 by lia. rewrite E3, Ec, El. cbn [bind]. rewrite Ecl.
  rewrite (skipn_app_le x t (S nl)) in H by lia. apply IH in H. exact H.
Qed.

Lemma parse_headers_local x t hs rest : parse_headers (x ++ t) = Ok (hs, rest ++ t) -> parse_headers x = Ok (hs, rest).
Proof.
  unfold parse_headers. intros H. apply parse_headers_f_local in H. rewrite <- H. symmetry.
  apply parse_headers_f_fuel; [|rewrite app_length; lia].
  apply parse_headers_f_enough. lia.
Qed.

(* ------------------------------------------------------------------ parse_request *)
Lemma parse_request_local x t r : parse_request (x ++ t) = Ok r -> q_offset r = length x -> parse_request x = Ok r.
Proof.
  intros H Hoff. unfold parse_request in H.
  pose proof (parse_method_ok (x ++ t)) as Hm.
  destruct (parse_method (x ++ t)) as [[m r1]| |] eqn:Em; cbn [bind meth_ok] in *; try discriminate H.
  destruct Hm as [Hs1 _].
  pose proof (parse_uri_ok r1) as Hu.
  destruct (parse_uri r1) as [[u r2]| |] eqn:Eu; cbn [bind uri_ok] in *; try discriminate H.
  destruct Hu as [Hs2 _].
  pose proof (parse_version_ok r2) as Hv.
  destruct (parse_version r2) as [[v r3]| |] eqn:Ev; cbn [bind ver_ok] in *; try discriminate H.
  apply ps_crlf_match in H. destruct H as [r4 [Hr3 H]]. subst r3.
  pose proof (parse_headers_ok r4 r4 (sublist_refl _)) as Hh.
  destruct (parse_headers r4) as [[hs r5]| |] eqn:Eh; cbn [bind hdrs_ok] in *; try discriminate H.
  destruct Hh as [Hs5 _].
  assert (Hs4 : suffix r4 r2) by (eapply suffix_trans; [|exact Hv]; eapply suffix_cons, suffix_cons, suffix_refl).
  assert (T5 : suffix r5 (x ++ t)).
  { eapply suffix_trans; [exact Hs5|]. eapply suffix_trans; [exact Hs4|]. eapply suffix_trans; [exact Hs2 | exact Hs1]. }
  rewrite (offset_of_ok _ _ T5) in H. cbn [bind] in H. inversion H; subst r. clear H.
  cbn [q_offset] in Hoff.
  pose proof (suffix_length _ _ T5) as L5. rewrite app_length in Hoff, L5.
  assert (L5' : length r5 = length t) by lia.
  pose proof (suffix_length _ _ Hs5) as L4. pose proof (suffix_length _ _ Hs4) as L3.
  pose proof (suffix_length _ _ Hs2) as L2.
  destruct (scl_suffix_app _ _ _ Hs1 ltac:(lia)) as [r1' [-> Hs1']].
  destruct (scl_suffix_app _ _ _ Hs2 ltac:(lia)) as [r2' [-> Hs2']].
  pose proof Hv as Hv'. cbn [length] in L3.
  destruct (scl_suffix_app _ _ _ Hv' ltac:(cbn [length]; lia)) as [r3' [E3 _]].
  destruct (scl_suffix_app _ _ _ Hs4 ltac:(lia)) as [r4' [-> _]].
  destruct (scl_suffix_app _ _ _ Hs5 ltac:(lia)) as [r5' [-> _]].
  assert (r5' = []) by (rewrite app_length in L5'; destruct r5'; [reflexivity | cbn [length] in L5'; lia]).
  subst r5'.
  change (x0d :: x0a :: r4' ++ t) with ((x0d :: x0a :: r4') ++ t) in E3. apply app_inv_tail in E3. subst r3'.
  change (x0d :: x0a :: r4' ++ t) with ((x0d :: x0a :: r4') ++ t) in Ev.
  apply parse_method_local in Em. apply parse_uri_local in Eu. apply parse_version_local in Ev.
  apply parse_headers_local in Eh.
  unfold parse_request. rewrite Em. cbn [bind]. rewrite Eu. cbn [bind]. rewrite Ev. cbn [bind]. rewrite Eh. cbn [bind].
  unfold offset_of. cbn [length Nat.leb bind]. f_equal. f_equal. cbn [app]. rewrite app_length. lia.
Qed.

(* an accepted head is accepted from its own bytes alone: the parser needs no look-ahead behind the head *)
Theorem head_local : forall s r, parse_request s = Ok r -> parse_request (firstn (q_offset r) s) = Ok r.
Proof.
  intros s r H. pose proof (request_fields_safe s r H) as [L _].
  apply (parse_request_local _ (skipn (q_offset r) s)).
  - rewrite firstn_skipn. exact H.
  - rewrite firstn_length. lia.
Qed.

(* consequence used by the caller *)
Corollary head_prefix : forall s r k, parse_request s = Ok r -> q_offset r <= k ->
  parse_request (firstn k s) = Ok r /\ raw_fields (firstn k s) = raw_fields s.
Proof.
  intros s r k H Hk. pose proof (head_local s r H) as HL.
  assert (E : firstn k s = firstn (q_offset r) s ++ firstn (k - q_offset r) (skipn (q_offset r) s)).
  { replace k with (q_offset r + (k - q_offset r)) at 1 by lia. apply ps_firstn_add. }
  split.
  - rewrite E. apply request_accept_stable. exact HL.
  - destruct (request_sound _ _ HL) as [sh [Hsh _]]. unfold raw_fields.
    pose proof (strict_head_app _ (skipn (q_offset r) s) _ _ Hsh) as Hs. rewrite firstn_skipn in Hs.
    rewrite E, (strict_head_app _ _ _ _ Hsh), Hs. reflexivity.
Qed.

Print Assumptions strict_head_app.
Print Assumptions head_local.
Print Assumptions head_prefix.
