(* C01: the head parsers never fault; text fields are ASCII substrings of the input; accessors are safe. *)
From KV Require Import Lib.Bytes Lib.Swar Model.Headers Model.Parser Spec.Substr Proofs.SwarSpec.

(* ------------------------------------------------------------------ generic list facts *)
Definition suffix (r l : bytes) : Prop := exists p, l = p ++ r.

Lemma suffix_refl l : suffix l l.
Proof. exists []. reflexivity. Qed.
Lemma suffix_trans a b c : suffix a b -> suffix b c -> suffix a c.
Proof. intros [p Hp] [q Hq]. exists (q ++ p). subst. rewrite app_assoc. reflexivity. Qed.
Lemma suffix_skipn n l : suffix (skipn n l) l.
Proof. exists (firstn n l). symmetry. apply firstn_skipn. Qed.
Lemma suffix_cons x r l : suffix (x :: r) l -> suffix r l.
Proof. intros [p Hp]. exists (p ++ [x]). rewrite <- app_assoc. exact Hp. Qed.
Lemma suffix_length r l : suffix r l -> length r <= length l.
Proof. intros [p Hp]. subst. rewrite app_length. lia. Qed.

Lemma sublist_refl l : sublist l l.
Proof. exists [], []. rewrite app_nil_r. reflexivity. Qed.
Lemma sublist_trans a b c : sublist a b -> sublist b c -> sublist a c.
Proof.
  intros [p [q H]] [p' [q' H']]. exists (p' ++ p), (q ++ q'). subst.
  repeat rewrite <- app_assoc. reflexivity.
Qed.
Lemma sublist_firstn n l : sublist (firstn n l) l.
Proof. exists [], (skipn n l). symmetry. apply firstn_skipn. Qed.
Lemma sublist_skipn n l : sublist (skipn n l) l.
Proof. exists (firstn n l), []. rewrite app_nil_r. symmetry. apply firstn_skipn. Qed.
Lemma suffix_is_sublist r l : suffix r l -> sublist r l.
Proof. intros [p Hp]. exists p, []. rewrite app_nil_r. exact Hp. Qed.
Lemma sublist_suffix a r l : sublist a r -> suffix r l -> sublist a l.
Proof. intros H1 H2. eapply sublist_trans; [exact H1 | apply suffix_is_sublist; exact H2]. Qed.

Lemma forallb_impl {A} (p q : A -> bool) l :
  (forall x, p x = true -> q x = true) -> forallb p l = true -> forallb q l = true.
Proof.
  intros Hpq. induction l as [|a l IH]; cbn [forallb]; intros H; [reflexivity|].
  apply andb_true_iff in H. destruct H as [Ha Hl]. rewrite (Hpq a Ha), (IH Hl). reflexivity.
Qed.

Lemma find_index_spec {A} (p : A -> bool) l : forall i, find_index p l = Some i ->
  i < length l /\ exists x, nth_error l i = Some x /\ p x = true /\
  forallb (fun y => negb (p y)) (firstn i l) = true.
Proof.
  induction l as [|a l IH]; intros i H; cbn [find_index] in H.
  - discriminate.
  - destruct (p a) eqn:Hp.
    + inversion H; subst. split; [cbn [length]; lia|]. exists a. cbn. auto.
    + destruct (find_index p l) as [j|] eqn:Hj; cbn [option_map] in H; [|discriminate].
      inversion H; subst. destruct (IH j eq_refl) as [Hl [x [Hn [Hx Hf]]]].
      split; [cbn [length]; lia|]. exists x. cbn [nth_error firstn forallb]. rewrite Hp. auto.
Qed.

Lemma strip_prefix_spec p : forall l r, strip_prefix p l = Some r -> l = p ++ r.
Proof.
  induction p as [|x p IH]; intros l r H; cbn [strip_prefix] in H.
  - inversion H. reflexivity.
  - destruct l as [|y l]; [discriminate|]. destruct (Byte.eqb x y) eqn:E; [|discriminate].
    apply byte_eqb_eq in E. subst y. cbn [app]. f_equal. apply IH. exact H.
Qed.

Lemma bytes_eqb_eq a : forall b, bytes_eqb a b = true -> a = b.
Proof.
  induction a as [|x a IH]; intros [|y b] H; cbn [bytes_eqb] in H; try discriminate; [reflexivity|].
  apply andb_true_iff in H. destruct H as [H1 H2]. apply byte_eqb_eq in H1. subst y.
  f_equal. apply IH. exact H2.
Qed.

Lemma drop_while_suffix (p : byte -> bool) l : suffix (drop_while p l) l.
Proof.
  induction l as [|a l IH]; cbn [drop_while]; [apply suffix_refl|].
  destruct (p a); [|apply suffix_refl]. destruct IH as [q Hq]. exists (a :: q). cbn [app]. f_equal. exact Hq.
Qed.

Lemma firstn_add {A} i n (l : list A) : firstn (i + n) l = firstn i l ++ firstn n (skipn i l).
Proof.
  revert l. induction i as [|i IH]; intros l; [reflexivity|].
  destruct l as [|a l]; cbn [Nat.add firstn skipn app]; [destruct n; reflexivity|]. f_equal. apply IH.
Qed.

Lemma nth_error_skipn_cons {A} (l : list A) : forall i x, nth_error l i = Some x ->
  skipn i l = x :: skipn (S i) l.
Proof.
  induction l as [|a l IH]; intros [|i] x H; cbn [nth_error] in H; try discriminate.
  - inversion H. reflexivity.
  - cbn [skipn]. rewrite (IH i x H). reflexivity.
Qed.

Lemma forallb_app_true {A} (p : A -> bool) l1 l2 :
  forallb p l1 = true -> forallb p l2 = true -> forallb p (l1 ++ l2) = true.
Proof. intros H1 H2. rewrite forallb_app, H1, H2. reflexivity. Qed.

(* ------------------------------------------------------------------ byte classes are ASCII *)
Lemma alpha_ascii b : is_alpha b = true -> is_ascii b = true.
Proof. destruct b; try reflexivity; intros H; discriminate H. Qed.
Lemma vchar_ascii b : is_vchar b = true -> is_ascii b = true.
Proof. destruct b; try reflexivity; intros H; discriminate H. Qed.
Lemma uri_byte_ascii b : is_valid_uri_byte b = true -> is_ascii b = true.
Proof. destruct b; try reflexivity; intros H; discriminate H. Qed.
Lemma field_byte_ascii b : is_valid_header_field_byte b = true -> is_ascii b = true.
Proof. destruct b; try reflexivity; intros H; discriminate H. Qed.
Lemma reason_byte_ascii b : is_reason_byte b = true -> is_ascii b = true.
Proof. destruct b; try reflexivity; intros H; discriminate H. Qed.

(* ------------------------------------------------------------------ parse_method *)
Definition meth_ok (buf : bytes) (r : res (method * bytes)) : Prop :=
  match r with
  | Fault _ => False
  | Err _ => True
  | Ok (m, rest) => suffix rest buf /\ sublist (method_str m) buf /\ forallb is_ascii (method_str m) = true
  end.

Lemma parse_method_ok buf : meth_ok buf (parse_method buf).
Proof.
  unfold parse_method.
  destruct (strip_prefix (bs "GET ") buf) as [rest|] eqn:H1.
  { apply strip_prefix_spec in H1. cbn [meth_ok method_str]. split; [exists (bs "GET "); exact H1|].
    split; [|reflexivity]. exists [], (x20 :: rest). rewrite H1. reflexivity. }
  destruct (strip_prefix (bs "POST ") buf) as [rest|] eqn:H2.
  { apply strip_prefix_spec in H2. cbn [meth_ok method_str]. split; [exists (bs "POST "); exact H2|].
    split; [|reflexivity]. exists [], (x20 :: rest). rewrite H2. reflexivity. }
  destruct (find_index (Byte.eqb x20) buf) as [i|] eqn:Hi; [|exact I].
  set (mb := firstn i buf).
  assert (Hsub : sublist mb buf) by apply sublist_firstn.
  assert (Hsuf : suffix (skipn (S i) buf) buf) by apply suffix_skipn.
  destruct (bytes_eqb mb (bs "HEAD")) eqn:E1.
  { apply bytes_eqb_eq in E1. cbn [meth_ok method_str]. rewrite <- E1 at 1. auto. }
  destruct (bytes_eqb mb (bs "PUT")) eqn:E2.
  { apply bytes_eqb_eq in E2. cbn [meth_ok method_str]. rewrite <- E2 at 1. auto. }
  destruct (bytes_eqb mb (bs "PATCH")) eqn:E3.
  { apply bytes_eqb_eq in E3. cbn [meth_ok method_str]. rewrite <- E3 at 1. auto. }
  destruct (bytes_eqb mb (bs "DELETE")) eqn:E4.
  { apply bytes_eqb_eq in E4. cbn [meth_ok method_str]. rewrite <- E4 at 1. auto. }
  destruct (bytes_eqb mb (bs "OPTIONS")) eqn:E5.
  { apply bytes_eqb_eq in E5. cbn [meth_ok method_str]. rewrite <- E5 at 1. auto. }
  destruct (bytes_eqb mb (bs "TRACE")) eqn:E6.
  { apply bytes_eqb_eq in E6. cbn [meth_ok method_str]. rewrite <- E6 at 1. auto. }
  destruct ((length mb =? 0) || negb (forallb is_alpha mb)) eqn:E7; [exact I|].
  apply orb_false_elim in E7. destruct E7 as [_ E7]. apply negb_false_iff in E7.
  assert (Ha : forallb is_ascii mb = true) by (eapply forallb_impl; [exact alpha_ascii | exact E7]).
  unfold str_unchecked. rewrite Ha. cbn [bind meth_ok method_str]. auto.
Qed.
