(* Pure facts about Spec/ChunkedSpec.v: the recogniser [spec_decode] accepts every generated
   encoding [enc_chunked b] (returning its payload and whatever follows), and answers
   [Invalid Truncated] on every strict prefix of a generated encoding. *)
From KV Require Import Lib.Bytes Spec.ChunkedSpec.

(* ------------------------------------------------------------------ bytes *)
Definition nolf (l : bytes) : bool := forallb (fun b => negb (Byte.eqb b x0a)) l.

Lemma nolf_app : forall a b, nolf (a ++ b) = nolf a && nolf b.
Proof. intros a b. unfold nolf. apply forallb_app. Qed.

Lemma hexdig_nolf1 : forall b, hexdig b = true -> negb (Byte.eqb b x0a) = true.
Proof. intros b Hb. destruct b; try discriminate Hb; reflexivity. Qed.

Lemma text_nolf1 : forall b, text_byte b = true -> negb (Byte.eqb b x0a) = true.
Proof. intros b Hb. destruct b; try discriminate Hb; reflexivity. Qed.

Lemma forallb_impl : forall (p q : byte -> bool) l,
  (forall b, p b = true -> q b = true) -> forallb p l = true -> forallb q l = true.
Proof.
  intros p q l Hpq. induction l as [|a l IH]; intros Hl; [reflexivity|].
  cbn [forallb] in *. apply andb_true_iff in Hl. destruct Hl as [Ha Hl].
  rewrite (Hpq a Ha), (IH Hl). reflexivity.
Qed.

Lemma hexdig_nolf : forall l, forallb hexdig l = true -> nolf l = true.
Proof. intros l Hl. unfold nolf. eapply forallb_impl; [apply hexdig_nolf1 | exact Hl]. Qed.

Lemma text_nolf : forall l, forallb text_byte l = true -> nolf l = true.
Proof. intros l Hl. unfold nolf. eapply forallb_impl; [apply text_nolf1 | exact Hl]. Qed.

Lemma wf_ext_nolf : forall e, wf_ext e = true -> nolf e = true.
Proof.
  intros e He. destruct e as [|a r]; [reflexivity|].
  destruct a; try discriminate He. cbn [wf_ext] in He.
  unfold nolf. cbn [forallb]. apply andb_true_iff. split; [reflexivity|].
  apply text_nolf. exact He.
Qed.

(* first byte of an extension followed by CR: never a hex digit, always ';' or CR *)
Definition stop_byte (l : bytes) : Prop :=
  match l with [] => True | b :: _ => hexdig b = false /\ (Byte.eqb b x3b || Byte.eqb b x0d = true) end.

Lemma wf_ext_stop : forall e more, wf_ext e = true -> stop_byte (e ++ x0d :: more).
Proof.
  intros e more He. destruct e as [|a r]; cbn [app stop_byte].
  - split; reflexivity.
  - destruct a; try discriminate He. split; reflexivity.
Qed.

Lemma stop_prefix : forall x y l, stop_byte l -> l = x ++ y -> stop_byte x.
Proof.
  intros x y l Hl E. destruct x as [|a x]; [exact I|]. subst l. exact Hl.
Qed.

(* ------------------------------------------------------------------ lines *)
Lemma to_lf_app : forall l more, nolf l = true -> to_lf (l ++ x0a :: more) = Some (l, more).
Proof.
  induction l as [|a l IH]; intros more Hl.
  - reflexivity.
  - unfold nolf in Hl. cbn [forallb] in Hl. apply andb_true_iff in Hl. destruct Hl as [Ha Hl].
    cbn [app to_lf]. apply negb_true_iff in Ha. rewrite Ha. rewrite (IH more Hl). reflexivity.
Qed.

Lemma to_lf_none : forall l, nolf l = true -> to_lf l = None.
Proof.
  induction l as [|a l IH]; intros Hl.
  - reflexivity.
  - unfold nolf in Hl. cbn [forallb] in Hl. apply andb_true_iff in Hl. destruct Hl as [Ha Hl].
    cbn [to_lf]. apply negb_true_iff in Ha. rewrite Ha. rewrite (IH Hl). reflexivity.
Qed.

Lemma line_crlf_app : forall line more, nolf line = true ->
  line_crlf (line ++ CRLF ++ more) = Some (Some line, more).
Proof.
  intros line more Hl. rewrite line_crlf_unfold. unfold CRLF.
  change (line ++ [x0d; x0a] ++ more) with (line ++ [x0d] ++ x0a :: more).
  rewrite app_assoc. rewrite to_lf_app.
  - rewrite rev_app_distr. cbn [rev app]. rewrite rev_involutive. reflexivity.
  - rewrite nolf_app, Hl. reflexivity.
Qed.

Lemma line_crlf_none : forall l, nolf l = true -> line_crlf l = None.
Proof. intros l Hl. rewrite line_crlf_unfold. rewrite (to_lf_none l Hl). reflexivity. Qed.

(* ------------------------------------------------------------------ take_while *)
Lemma take_while_app : forall sz more, forallb hexdig sz = true -> stop_byte more ->
  take_while hexdig (sz ++ more) = (sz, more).
Proof.
  induction sz as [|a sz IH]; intros more Hsz Hm.
  - cbn [app]. destruct more as [|b r]; [reflexivity|].
    cbn [take_while]. destruct Hm as [Hb _]. rewrite Hb. reflexivity.
  - cbn [forallb] in Hsz. apply andb_true_iff in Hsz. destruct Hsz as [Ha Hsz].
    cbn [app take_while]. rewrite Ha. rewrite (IH more Hsz Hm). reflexivity.
Qed.

(* ------------------------------------------------------------------ take_n *)
Lemma take_n_0 : forall l, take_n 0 l = Some ([], l).
Proof. intros l. destruct l; reflexivity. Qed.

Lemma take_n_cons : forall n b r, n <> 0%N ->
  take_n n (b :: r) = match take_n (N.pred n) r with Some (x, y) => Some (b :: x, y) | None => None end.
Proof.
  intros n b r Hn. cbn [take_n]. destruct (N.eqb_spec n 0) as [E|_]; [contradiction|]. reflexivity.
Qed.

Lemma take_n_nil : forall n, n <> 0%N -> take_n n [] = None.
Proof.
  intros n Hn. cbn [take_n]. destruct (N.eqb_spec n 0) as [E|_]; [contradiction|]. reflexivity.
Qed.

Lemma take_n_app : forall d r, take_n (N.of_nat (length d)) (d ++ r) = Some (d, r).
Proof.
  induction d as [|a d IH]; intros r.
  - apply take_n_0.
  - cbn [length app]. rewrite take_n_cons by lia.
    replace (N.pred (N.of_nat (S (length d)))) with (N.of_nat (length d)) by lia.
    rewrite IH. reflexivity.
Qed.

Lemma take_n_short : forall y n, (N.of_nat (length y) < n)%N -> take_n n y = None.
Proof.
  induction y as [|a y IH]; intros n Hn.
  - apply take_n_nil. lia.
  - cbn [length] in Hn. rewrite take_n_cons by lia.
    rewrite IH by lia. reflexivity.
Qed.

(* ------------------------------------------------------------------ hex_value *)
Lemma hex_value_zeros : forall z, forallb (Byte.eqb x30) z = true -> hex_value z = 0%N.
Proof.
  intros z. unfold hex_value. induction z as [|a z IH]; intros Hz; [reflexivity|].
  cbn [forallb] in Hz. apply andb_true_iff in Hz. destruct Hz as [Ha Hz].
  apply byte_eqb_eq in Ha. subst a. cbn [fold_left].
  change (0 * 16 + hexdig_val x30)%N with 0%N. exact (IH Hz).
Qed.

Lemma zeros_hexdig : forall z, forallb (Byte.eqb x30) z = true -> forallb hexdig z = true.
Proof.
  intros z Hz. eapply forallb_impl; [|exact Hz].
  intros b Hb. apply byte_eqb_eq in Hb. subst b. reflexivity.
Qed.

(* ------------------------------------------------------------------ one size line *)
Lemma wf_ext_stop0 : forall e, wf_ext e = true -> stop_byte e.
Proof.
  intros e He. destruct e as [|a r]; [exact I|].
  destruct a; try discriminate He. split; reflexivity.
Qed.

Definition after_line (f : nat) (sz rest acc : bytes) : dres :=
  if N.eqb (hex_value sz) 0 then
    match dec_trailers (S (length rest)) rest with
    | None => Invalid Truncated
    | Some None => Unspecified
    | Some (Some rest') => Valid acc rest'
    end
  else
    match take_n (hex_value sz) rest with
    | None => Invalid Truncated
    | Some (data, after) =>
      match after with
      | x0d :: x0a :: rest' => dec_chunks f rest' (acc ++ data)
      | [] | [x0d] => Invalid Truncated
      | _ => Invalid BadChunkEnd
      end
    end.

Lemma dec_line : forall f sz ext rest acc,
  nonempty sz = true -> forallb hexdig sz = true -> wf_ext ext = true ->
  (hex_value sz <? 2 ^ 64)%N = true ->
  dec_chunks (S f) (sz ++ ext ++ CRLF ++ rest) acc = after_line f sz rest acc.
Proof.
  intros f sz ext rest acc Hne Hhex Hext Hlt.
  rewrite app_assoc. cbn [dec_chunks].
  rewrite line_crlf_app.
  2:{ rewrite nolf_app, (hexdig_nolf _ Hhex), (wf_ext_nolf _ Hext). reflexivity. }
  rewrite (take_while_app sz ext Hhex (wf_ext_stop0 _ Hext)).
  cbv beta iota.
  destruct sz as [|s sz']; [discriminate Hne|].
  rewrite Hext, Hlt. cbn [negb].
  destruct ext as [|e r]; [reflexivity|].
  destruct e; try discriminate Hext. reflexivity.
Qed.

(* ------------------------------------------------------------------ well-formed pieces *)
Lemma wf_chunk_inv : forall c, wf_chunk c = true ->
  nonempty (k_size c) = true /\ forallb hexdig (k_size c) = true /\ nonempty (k_data c) = true /\
  hex_value (k_size c) = N.of_nat (length (k_data c)) /\ (hex_value (k_size c) <? 2 ^ 64)%N = true /\
  wf_ext (k_ext c) = true.
Proof.
  intros c Hc. unfold wf_chunk in Hc.
  repeat (apply andb_true_iff in Hc; let H := fresh "H" in destruct Hc as [Hc H]).
  apply N.eqb_eq in H1. repeat split; assumption.
Qed.

Lemma wf_cbody_inv : forall b, wf_cbody b = true ->
  forallb wf_chunk (cb_chunks b) = true /\ nonempty (cb_zeros b) = true /\
  forallb (Byte.eqb x30) (cb_zeros b) = true /\ wf_ext (cb_ext b) = true /\
  forallb wf_trailer (cb_trailers b) = true.
Proof.
  intros b Hb. unfold wf_cbody in Hb.
  repeat (apply andb_true_iff in Hb; let H := fresh "H" in destruct Hb as [Hb H]).
  repeat split; assumption.
Qed.

Lemma wf_trailer_inv : forall t, wf_trailer t = true -> nonempty t = true /\ forallb text_byte t = true.
Proof. intros t Ht. unfold wf_trailer in Ht. apply andb_true_iff in Ht. exact Ht. Qed.

Lemma nonempty_length : forall l, nonempty l = true -> (0 < N.of_nat (length l))%N.
Proof. intros l Hl. destruct l; [discriminate Hl|]. cbn [length]. lia. Qed.

(* ------------------------------------------------------------------ generated encodings are accepted *)
Lemma dec_chunk_step : forall f c more acc, wf_chunk c = true ->
  dec_chunks (S f) (render_chunk c ++ more) acc = dec_chunks f more (acc ++ k_data c).
Proof.
  intros f c more acc Hc.
  destruct (wf_chunk_inv c Hc) as (Hne & Hhex & Hdne & Hval & Hlt & Hext).
  unfold render_chunk. repeat rewrite <- app_assoc.
  rewrite (dec_line f _ _ _ acc Hne Hhex Hext Hlt). unfold after_line.
  pose proof (nonempty_length _ Hdne) as Hpos.
  destruct (N.eqb_spec (hex_value (k_size c)) 0) as [E|_]; [lia|].
  rewrite Hval, take_n_app. reflexivity.
Qed.

Definition render_trailers (ts : list bytes) : bytes := flat_map (fun t => t ++ CRLF) ts.

Lemma dec_trailers_S : forall f l, dec_trailers (S f) l =
  match line_crlf l with
  | None => None
  | Some (None, _) => Some None
  | Some (Some [], rest) => Some (Some rest)
  | Some (Some t, rest) => if forallb text_byte t then dec_trailers f rest else Some None
  end.
Proof. reflexivity. Qed.

Lemma dec_trailer_step : forall f t more, wf_trailer t = true ->
  dec_trailers (S f) ((t ++ CRLF) ++ more) = dec_trailers f more.
Proof.
  intros f t more Ht. destruct (wf_trailer_inv t Ht) as [Hne Htx].
  rewrite <- app_assoc, dec_trailers_S, (line_crlf_app t more (text_nolf _ Htx)).
  destruct t as [|a t']; [discriminate Hne|]. rewrite Htx. reflexivity.
Qed.

Lemma dec_trailers_enc : forall ts f rest, forallb wf_trailer ts = true -> length ts < f ->
  dec_trailers f (render_trailers ts ++ CRLF ++ rest) = Some (Some rest).
Proof.
  induction ts as [|t ts IH]; intros f rest Hts Hf.
  - destruct f as [|f]; [lia|]. change (render_trailers []) with (@nil byte).
    rewrite dec_trailers_S. rewrite (line_crlf_app [] rest eq_refl). reflexivity.
  - cbn [forallb] in Hts. apply andb_true_iff in Hts. destruct Hts as [Ht Hts].
    destruct f as [|f]; [lia|]. cbn [length] in Hf.
    unfold render_trailers. cbn [flat_map]. fold (render_trailers ts).
    rewrite <- (app_assoc (t ++ CRLF)). rewrite (dec_trailer_step f t _ Ht).
    apply IH; [exact Hts | lia].
Qed.

Lemma render_trailers_length : forall ts, length ts <= length (render_trailers ts).
Proof.
  induction ts as [|t ts IH]; [apply le_n|].
  unfold render_trailers. cbn [flat_map]. fold (render_trailers ts).
  repeat rewrite app_length. cbn [length CRLF]. lia.
Qed.

Definition last_part (b : cbody) : bytes :=
  cb_zeros b ++ cb_ext b ++ CRLF ++ render_trailers (cb_trailers b) ++ CRLF.

Lemma dec_last : forall f b rest acc, wf_cbody b = true ->
  dec_chunks (S f) (last_part b ++ rest) acc = Valid acc rest.
Proof.
  intros f b rest acc Hb.
  destruct (wf_cbody_inv b Hb) as (_ & Hne & Hz & Hext & Hts).
  unfold last_part. repeat rewrite <- app_assoc.
  rewrite (dec_line f _ _ _ acc Hne (zeros_hexdig _ Hz) Hext).
  2:{ rewrite (hex_value_zeros _ Hz). reflexivity. }
  unfold after_line. rewrite (hex_value_zeros _ Hz). cbn [N.eqb].
  rewrite dec_trailers_enc; [reflexivity | exact Hts |].
  rewrite app_length. pose proof (render_trailers_length (cb_trailers b)). lia.
Qed.

Lemma dec_chunks_enc : forall cs f acc b rest,
  forallb wf_chunk cs = true -> wf_cbody b = true -> length cs < f ->
  dec_chunks f (flat_map render_chunk cs ++ last_part b ++ rest) acc = Valid (acc ++ flat_map k_data cs) rest.
Proof.
  induction cs as [|c cs IH]; intros f acc b rest Hcs Hb Hf.
  - destruct f as [|f]; [lia|]. cbn [flat_map app]. rewrite app_nil_r. apply dec_last. exact Hb.
  - cbn [forallb] in Hcs. apply andb_true_iff in Hcs. destruct Hcs as [Hc Hcs].
    destruct f as [|f]; [lia|]. cbn [length] in Hf.
    cbn [flat_map]. rewrite <- (app_assoc (render_chunk c)).
    rewrite (dec_chunk_step f c _ acc Hc).
    rewrite (IH f (acc ++ k_data c) b rest Hcs Hb) by lia.
    rewrite <- app_assoc. reflexivity.
Qed.

Lemma render_chunks_length : forall cs, length cs <= length (flat_map render_chunk cs).
Proof.
  induction cs as [|c cs IH]; [apply le_n|].
  cbn [flat_map]. unfold render_chunk at 1. repeat rewrite app_length. cbn [length CRLF]. lia.
Qed.

Lemma enc_chunked_split : forall b, enc_chunked b = flat_map render_chunk (cb_chunks b) ++ last_part b.
Proof. intros b. reflexivity. Qed.

Theorem spec_decode_enc : forall b rest, wf_cbody b = true ->
  spec_decode (enc_chunked b ++ rest) = Valid (payload_of b) rest.
Proof.
  intros b rest Hb. unfold spec_decode, payload_of.
  rewrite enc_chunked_split, <- app_assoc.
  destruct (wf_cbody_inv b Hb) as (Hcs & _).
  rewrite (dec_chunks_enc (cb_chunks b) _ [] b rest Hcs Hb); [reflexivity|].
  rewrite app_length. pose proof (render_chunks_length (cb_chunks b)). lia.
Qed.

(* ------------------------------------------------------------------ strict prefixes are truncated *)
Lemma dec_chunks_S : forall f l acc, dec_chunks (S f) l acc =
  match line_crlf l with
  | None =>
      let '(sz, after) := take_while hexdig l in
      match after with
      | [] => Invalid Truncated
      | b :: _ => if Byte.eqb b x3b || Byte.eqb b x0d then Invalid Truncated else Invalid BadSize
      end
  | Some (None, _) => Unspecified
  | Some (Some line, rest) =>
      let '(sz, ext) := take_while hexdig line in
      match sz with
      | [] => Invalid BadSize
      | _ =>
          match ext with
          | [] | x3b :: _ =>
              if negb (wf_ext ext) then Unspecified
              else if negb (hex_value sz <? 2 ^ 64)%N then Invalid BadSize
              else after_line f sz rest acc
          | _ => Invalid BadSize
          end
      end
  end.
Proof. reflexivity. Qed.

(* a cut inside the size line "sz ext CR" (the LF not yet seen) *)
Lemma size_line_cut : forall sz ext pre l' fuel acc,
  forallb hexdig sz = true -> wf_ext ext = true -> sz ++ ext ++ [x0d] = pre ++ l' ->
  dec_chunks fuel pre acc = Invalid Truncated.
Proof.
  intros sz ext pre l' fuel acc Hhex Hext E.
  destruct fuel as [|f]; [reflexivity|]. rewrite dec_chunks_S.
  assert (Hnl : nolf pre = true).
  { assert (Hall : nolf (sz ++ ext ++ [x0d]) = true).
    { repeat rewrite nolf_app. rewrite (hexdig_nolf _ Hhex), (wf_ext_nolf _ Hext). reflexivity. }
    rewrite E, nolf_app in Hall. apply andb_true_iff in Hall. exact (proj1 Hall). }
  rewrite (line_crlf_none _ Hnl).
  apply app_eq_app in E. destruct E as [l [[E1 E2]|[E1 E2]]].
  - (* inside the digits *)
    subst sz. rewrite forallb_app in Hhex. apply andb_true_iff in Hhex. destruct Hhex as [Hp _].
    rewrite <- (app_nil_r pre). rewrite (take_while_app pre [] Hp I). reflexivity.
  - subst pre. pose proof (stop_prefix l l' _ (wf_ext_stop ext [] Hext) E2) as Hstop.
    rewrite (take_while_app sz l Hhex Hstop).
    destruct l as [|b r]; [reflexivity|]. destruct Hstop as [_ Hb]. rewrite Hb. reflexivity.
Qed.

(* a cut anywhere in "sz ext CRLF body", given that a cut inside [body] is reported as truncated *)
Lemma line_cut : forall sz ext body pre suf fuel acc,
  nonempty sz = true -> forallb hexdig sz = true -> wf_ext ext = true ->
  (hex_value sz <? 2 ^ 64)%N = true ->
  sz ++ ext ++ CRLF ++ body = pre ++ suf -> suf <> [] ->
  (forall f y suf', body = y ++ suf' -> suf' <> [] -> after_line f sz y acc = Invalid Truncated) ->
  dec_chunks fuel pre acc = Invalid Truncated.
Proof.
  intros sz ext body pre suf fuel acc Hne Hhex Hext Hlt E Hsuf Hbody.
  assert (E' : (sz ++ ext ++ [x0d]) ++ x0a :: body = pre ++ suf).
  { rewrite <- E. repeat rewrite <- app_assoc. reflexivity. }
  apply app_eq_app in E'. destruct E' as [l [[E1 E2]|[E1 E2]]].
  - exact (size_line_cut sz ext pre l fuel acc Hhex Hext E1).
  - destruct l as [|a y].
    + rewrite app_nil_r in E1. symmetry in E1. rewrite <- (app_nil_r pre) in E1.
      exact (size_line_cut sz ext pre [] fuel acc Hhex Hext E1).
    + cbn [app] in E2. injection E2 as Ea Eb. subst a.
      destruct fuel as [|f]; [reflexivity|].
      assert (Ep : pre = sz ++ ext ++ CRLF ++ y).
      { rewrite E1. repeat rewrite <- app_assoc. reflexivity. }
      rewrite Ep, (dec_line f sz ext y acc Hne Hhex Hext Hlt).
      exact (Hbody f y suf Eb Hsuf).
Qed.

Lemma chunk_cut : forall c pre suf fuel acc, wf_chunk c = true ->
  render_chunk c = pre ++ suf -> suf <> [] -> dec_chunks fuel pre acc = Invalid Truncated.
Proof.
  intros c pre suf fuel acc Hc E Hsuf.
  destruct (wf_chunk_inv c Hc) as (Hne & Hhex & Hdne & Hval & Hlt & Hext).
  unfold render_chunk in E.
  apply (line_cut _ _ _ _ _ fuel acc Hne Hhex Hext Hlt E Hsuf).
  intros f y suf' Ey Hsuf'. unfold after_line.
  pose proof (nonempty_length _ Hdne) as Hpos.
  destruct (N.eqb_spec (hex_value (k_size c)) 0) as [E0|_]; [lia|].
  rewrite Hval.
  apply app_eq_app in Ey. destruct Ey as [w [[E1 E2]|[E1 E2]]].
  - destruct w as [|a w].
    + rewrite app_nil_r in E1. subst y. rewrite <- (app_nil_r (k_data c)) at 2.
      rewrite take_n_app. reflexivity.
    + rewrite take_n_short; [reflexivity|].
      rewrite E1, app_length. cbn [length]. lia.
  - subst y. rewrite take_n_app.
    destruct w as [|a [|b [|c' w]]].
    + reflexivity.
    + cbn [app] in E2. injection E2 as Ea _. subst a. reflexivity.
    + cbn [app] in E2. injection E2 as _ _ E3. subst suf'. contradiction Hsuf'. reflexivity.
    + cbn [app] in E2. discriminate E2.
Qed.

Lemma dec_trailers_cut : forall ts y suf f, forallb wf_trailer ts = true ->
  render_trailers ts ++ CRLF = y ++ suf -> suf <> [] -> dec_trailers f y = None.
Proof.
  induction ts as [|t ts IH]; intros y suf f Hts E Hsuf.
  - destruct f as [|f]; [reflexivity|]. rewrite dec_trailers_S.
    change (render_trailers [] ++ CRLF) with [x0d; x0a] in E.
    destruct y as [|a [|b [|c' w]]].
    + reflexivity.
    + cbn [app] in E. injection E as Ea _. subst a. reflexivity.
    + cbn [app] in E. injection E as _ _ E3. subst suf. contradiction Hsuf. reflexivity.
    + cbn [app] in E. discriminate E.
  - cbn [forallb] in Hts. apply andb_true_iff in Hts. destruct Hts as [Ht Hts].
    destruct (wf_trailer_inv t Ht) as [Hne Htx].
    unfold render_trailers in E. cbn [flat_map] in E. fold (render_trailers ts) in E.
    assert (E' : (t ++ [x0d]) ++ x0a :: (render_trailers ts ++ CRLF) = y ++ suf).
    { rewrite <- E. repeat rewrite <- app_assoc. reflexivity. }
    assert (Hnl : nolf (t ++ [x0d]) = true).
    { rewrite nolf_app, (text_nolf _ Htx). reflexivity. }
    destruct f as [|f]; [reflexivity|].
    apply app_eq_app in E'. destruct E' as [l [[E1 E2]|[E1 E2]]].
    + rewrite E1, nolf_app in Hnl. apply andb_true_iff in Hnl.
      rewrite dec_trailers_S, (line_crlf_none y (proj1 Hnl)). reflexivity.
    + destruct l as [|a y'].
      * rewrite app_nil_r in E1. subst y.
        rewrite dec_trailers_S, (line_crlf_none _ Hnl). reflexivity.
      * cbn [app] in E2. injection E2 as Ea Eb. subst a.
        assert (Ey : y = (t ++ CRLF) ++ y').
        { rewrite E1. repeat rewrite <- app_assoc. reflexivity. }
        rewrite Ey, (dec_trailer_step f t y' Ht).
        exact (IH y' suf f Hts Eb Hsuf).
Qed.

Lemma last_cut : forall b pre suf fuel acc, wf_cbody b = true ->
  last_part b = pre ++ suf -> suf <> [] -> dec_chunks fuel pre acc = Invalid Truncated.
Proof.
  intros b pre suf fuel acc Hb E Hsuf.
  destruct (wf_cbody_inv b Hb) as (_ & Hne & Hz & Hext & Hts).
  unfold last_part in E.
  assert (Hlt : (hex_value (cb_zeros b) <? 2 ^ 64)%N = true).
  { rewrite (hex_value_zeros _ Hz). reflexivity. }
  apply (line_cut _ _ _ _ _ fuel acc Hne (zeros_hexdig _ Hz) Hext Hlt E Hsuf).
  intros f y suf' Ey Hsuf'. unfold after_line.
  rewrite (hex_value_zeros _ Hz). cbn [N.eqb].
  rewrite (dec_trailers_cut _ y suf' _ Hts Ey Hsuf'). reflexivity.
Qed.

Lemma chunks_cut : forall cs b pre suf fuel acc, forallb wf_chunk cs = true -> wf_cbody b = true ->
  flat_map render_chunk cs ++ last_part b = pre ++ suf -> suf <> [] ->
  dec_chunks fuel pre acc = Invalid Truncated.
Proof.
  induction cs as [|c cs IH]; intros b pre suf fuel acc Hcs Hb E Hsuf.
  - cbn [flat_map app] in E. exact (last_cut b pre suf fuel acc Hb E Hsuf).
  - cbn [forallb] in Hcs. apply andb_true_iff in Hcs. destruct Hcs as [Hc Hcs].
    cbn [flat_map] in E. rewrite <- app_assoc in E.
    apply app_eq_app in E. destruct E as [l [[E1 E2]|[E1 E2]]].
    + destruct l as [|a l].
      * (* the cut is exactly at the end of this chunk *)
        rewrite app_nil_r in E1. cbn [app] in E2.
        destruct fuel as [|f]; [reflexivity|].
        rewrite <- (app_nil_r pre), <- E1, (dec_chunk_step f c [] acc Hc).
        apply (IH b [] suf f _ Hcs Hb); [symmetry; exact E2 | exact Hsuf].
      * apply (chunk_cut c pre (a :: l) fuel acc Hc E1). discriminate.
    + destruct fuel as [|f]; [reflexivity|].
      rewrite E1, (dec_chunk_step f c l acc Hc).
      exact (IH b l suf f _ Hcs Hb E2 Hsuf).
Qed.

Theorem spec_decode_prefix : forall b pre suf, wf_cbody b = true ->
  enc_chunked b = pre ++ suf -> suf <> [] -> spec_decode pre = Invalid Truncated.
Proof.
  intros b pre suf Hb E Hsuf. unfold spec_decode.
  destruct (wf_cbody_inv b Hb) as (Hcs & _).
  rewrite enc_chunked_split in E.
  exact (chunks_cut (cb_chunks b) b pre suf _ [] Hcs Hb E Hsuf).
Qed.

Print Assumptions spec_decode_enc.
Print Assumptions spec_decode_prefix.
