(* Shared material for C06 (body reader refines the strict recogniser): counted list operations,
   the byte source layer stated in terms of [reach] (the bytes still reachable through the optional
   Read::take limit; equal to [src_rest] when there is none) and the constant-fuel bound. *)
From KV Require Import Lib.Bytes Lib.Utf8 Model.Body Spec.ChunkedSpec.

Local Open Scope N_scope.

(* ------------------------------------------------------------------ lenN / firstnN / skipnN *)
Lemma lenN_nil : lenN [] = 0.
Proof. reflexivity. Qed.

Lemma lenN_cons x l : lenN (x :: l) = N.succ (lenN l).
Proof. unfold lenN. cbn [length]. lia. Qed.

Lemma lenN_app a b : lenN (a ++ b) = lenN a + lenN b.
Proof. unfold lenN. rewrite app_length. lia. Qed.

Lemma lenN_0 l : lenN l = 0 -> l = [].
Proof. destruct l as [|x l]; [reflexivity|]. rewrite lenN_cons. lia. Qed.

Lemma lenN_pos l : l <> [] -> 0 < lenN l.
Proof. destruct l as [|x l]; [congruence|]. rewrite lenN_cons. lia. Qed.

Lemma firstnN_0 l : firstnN 0 l = [].
Proof. destruct l; reflexivity. Qed.

Lemma skipnN_0 l : skipnN 0 l = l.
Proof. destruct l; reflexivity. Qed.

Lemma firstnN_cons k x r : k <> 0 -> firstnN k (x :: r) = x :: firstnN (N.pred k) r.
Proof. intros Hk. cbn [firstnN]. destruct (N.eqb_spec k 0) as [E|E]; [contradiction|reflexivity]. Qed.

Lemma skipnN_cons k x r : k <> 0 -> skipnN k (x :: r) = skipnN (N.pred k) r.
Proof. intros Hk. cbn [skipnN]. destruct (N.eqb_spec k 0) as [E|E]; [contradiction|reflexivity]. Qed.

Lemma firstnN_skipnN k l : firstnN k l ++ skipnN k l = l.
Proof.
  revert k. induction l as [|x r IH]; intros k; [reflexivity|].
  destruct (N.eq_dec k 0) as [E|E].
  - subst k. reflexivity.
  - rewrite firstnN_cons, skipnN_cons by exact E. cbn [app]. rewrite IH. reflexivity.
Qed.

Lemma lenN_firstnN_le k l : lenN (firstnN k l) <= k.
Proof.
  revert k. induction l as [|x r IH]; intros k.
  - cbn [firstnN]. rewrite lenN_nil. lia.
  - destruct (N.eq_dec k 0) as [E|E].
    + subst k. rewrite firstnN_0, lenN_nil. lia.
    + rewrite firstnN_cons by exact E. rewrite lenN_cons. specialize (IH (N.pred k)). lia.
Qed.

Lemma firstnN_nonempty k l : 0 < k -> l <> [] -> firstnN k l <> [].
Proof.
  intros Hk Hl. destruct l as [|x r]; [congruence|].
  rewrite firstnN_cons by lia. discriminate.
Qed.

Lemma skipnN_app_len a b : skipnN (lenN a) (a ++ b) = b.
Proof.
  induction a as [|x a IH].
  - rewrite lenN_nil. cbn [app]. apply skipnN_0.
  - cbn [app]. rewrite skipnN_cons by (rewrite lenN_cons; lia).
    rewrite lenN_cons, N.pred_succ. exact IH.
Qed.

Lemma firstnN_app_len a b : firstnN (lenN a) (a ++ b) = a.
Proof.
  induction a as [|x a IH].
  - rewrite lenN_nil. cbn [app]. apply firstnN_0.
  - cbn [app]. rewrite firstnN_cons by (rewrite lenN_cons; lia).
    rewrite lenN_cons, N.pred_succ, IH. reflexivity.
Qed.

Lemma firstnN_all k l : lenN l <= k -> firstnN k l = l.
Proof.
  revert k. induction l as [|x r IH]; intros k Hk; [reflexivity|].
  rewrite lenN_cons in Hk. rewrite firstnN_cons by lia. rewrite IH by lia. reflexivity.
Qed.

Lemma firstnN_app_le k a b : lenN a <= k -> firstnN k (a ++ b) = a ++ firstnN (k - lenN a) b.
Proof.
  revert k. induction a as [|x a IH]; intros k Hk.
  - rewrite lenN_nil, N.sub_0_r. reflexivity.
  - rewrite lenN_cons in Hk. cbn [app]. rewrite firstnN_cons by lia. rewrite IH by lia.
    rewrite lenN_cons. replace (N.pred k - lenN a) with (k - N.succ (lenN a)) by lia. reflexivity.
Qed.

Lemma skipnN_of_nat n l : skipnN (N.of_nat n) l = skipn n l.
Proof.
  revert n. induction l as [|x r IH]; intros n.
  - destruct n; reflexivity.
  - destruct n as [|n].
    + reflexivity.
    + rewrite skipnN_cons by lia. replace (N.pred (N.of_nat (S n))) with (N.of_nat n) by lia.
      cbn [skipn]. apply IH.
Qed.

(* ------------------------------------------------------------------ take_n *)
Lemma take_n_0 l : take_n 0 l = Some ([], l).
Proof. destruct l; reflexivity. Qed.

Lemma take_n_cons n b r : n <> 0 ->
  take_n n (b :: r) = match take_n (N.pred n) r with Some (x, y) => Some (b :: x, y) | None => None end.
Proof. intros Hn. cbn [take_n]. destruct (N.eqb_spec n 0) as [E|E]; [contradiction|reflexivity]. Qed.

Lemma take_n_nil n : n <> 0 -> take_n n [] = None.
Proof. intros Hn. cbn [take_n]. destruct (N.eqb_spec n 0) as [E|E]; [contradiction|reflexivity]. Qed.

Lemma take_n_some n l d a : take_n n l = Some (d, a) -> l = d ++ a /\ lenN d = n.
Proof.
  revert n d a. induction l as [|b r IH]; intros n d a H.
  - destruct (N.eq_dec n 0) as [E|E].
    + subst n. rewrite take_n_0 in H. inversion H. subst. split; reflexivity.
    + rewrite take_n_nil in H by exact E. discriminate.
  - destruct (N.eq_dec n 0) as [E|E].
    + subst n. rewrite take_n_0 in H. inversion H. subst. split; reflexivity.
    + rewrite take_n_cons in H by exact E.
      destruct (take_n (N.pred n) r) as [[x y]|] eqn:E2; [|discriminate].
      inversion H. subst. destruct (IH _ _ _ E2) as [H1 H2]. subst r.
      split; [reflexivity|]. rewrite lenN_cons. lia.
Qed.

Lemma take_n_none n l : take_n n l = None -> lenN l < n.
Proof.
  revert n. induction l as [|b r IH]; intros n H.
  - destruct (N.eq_dec n 0) as [E|E].
    + subst n. rewrite take_n_0 in H. discriminate.
    + rewrite lenN_nil. lia.
  - destruct (N.eq_dec n 0) as [E|E].
    + subst n. rewrite take_n_0 in H. discriminate.
    + rewrite take_n_cons in H by exact E.
      destruct (take_n (N.pred n) r) as [[x y]|] eqn:E2; [discriminate|].
      apply IH in E2. rewrite lenN_cons. lia.
Qed.

(* reading a prefix [out] of at most n bytes: the rest of the chunk is what remains *)
Lemma take_n_app out n l : lenN out <= n ->
  take_n n (out ++ l) =
  match take_n (n - lenN out) l with Some (d, a) => Some (out ++ d, a) | None => None end.
Proof.
  revert n. induction out as [|b out IH]; intros n Hle.
  - rewrite lenN_nil, N.sub_0_r. cbn [app]. destruct (take_n n l) as [[d a]|]; reflexivity.
  - rewrite lenN_cons in Hle. cbn [app]. rewrite take_n_cons by lia.
    rewrite IH by lia. rewrite lenN_cons.
    replace (N.pred n - lenN out) with (n - N.succ (lenN out)) by lia.
    destruct (take_n (n - N.succ (lenN out)) l) as [[d a]|]; reflexivity.
Qed.

(* a complete body seen through take(n): exactly its n bytes and nothing after *)
Lemma take_n_firstnN n l d a : take_n n l = Some (d, a) -> take_n n (firstnN n l) = Some (d, []).
Proof.
  intros H. apply take_n_some in H. destruct H as [H1 H2]. subst l n.
  rewrite firstnN_app_len. rewrite <- (app_nil_r d) at 2. rewrite take_n_app by lia.
  rewrite N.sub_diag, take_n_0, app_nil_r. reflexivity.
Qed.

(* ------------------------------------------------------------------ the source *)
(* what is still reachable behind the BufReader: everything, or the first [lim] bytes under take(lim) *)
Definition tail3 (l : bytes) (sg : list bytes) (tk : option N) : bytes :=
  match tk with None => l ++ concat sg | Some lim => firstnN lim (l ++ concat sg) end.
Definition reach (s : src) : bytes := bbuf s ++ tail3 (lo s) (segs s) (stake s).

Lemma reach_none s : stake s = None -> reach s = src_rest s.
Proof. intros H. unfold reach, src_rest, tail3. rewrite H. reflexivity. Qed.

Lemma lenN_firstnN_le_len k l : lenN (firstnN k l) <= lenN l.
Proof.
  rewrite <- (firstnN_skipnN k l) at 2. rewrite lenN_app. lia.
Qed.

Lemma length_tail3_le l sg tk : (length (tail3 l sg tk) <= length (l ++ concat sg))%nat.
Proof.
  unfold tail3. destruct tk as [lim|]; [|lia].
  pose proof (lenN_firstnN_le_len lim (l ++ concat sg)) as H. unfold lenN in H. lia.
Qed.

Definition Bound (s : src) : Prop := (4 * S (length (reach s)) + 8 <= sfuel s)%nat.

Lemma Bound_mk lo st : Bound (mk_src lo st).
Proof.
  unfold Bound, mk_src, reach, tail3. cbn [bbuf Body.lo segs sfuel stake app].
  rewrite app_length. lia.
Qed.

Lemma Bound_mk_take lo st n : Bound (mk_src_take lo st n).
Proof.
  unfold Bound, mk_src_take, reach. cbn [bbuf Body.lo segs sfuel stake app].
  pose proof (length_tail3_le lo st (Some n)) as H. rewrite app_length in H. lia.
Qed.

Lemma reach_mk lo st : reach (mk_src lo st) = lo ++ concat st.
Proof. reflexivity. Qed.

Lemma reach_mk_take lo st n : reach (mk_src_take lo st n) = firstnN n (lo ++ concat st).
Proof. reflexivity. Qed.

Lemma Bound_shrink s s' : sfuel s' = sfuel s ->
  (length (reach s') <= length (reach s))%nat -> Bound s -> Bound s'.
Proof. unfold Bound. intros Hf Hl Hb. rewrite Hf. lia. Qed.

Lemma Bound_split s s' out : sfuel s' = sfuel s -> reach s = out ++ reach s' -> Bound s -> Bound s'.
Proof.
  intros Hf Hs. apply Bound_shrink; [exact Hf|]. rewrite Hs, app_length. lia.
Qed.

Lemma Bound_fuel s : Bound s -> (length (reach s) < sfuel s /\ 12 <= sfuel s)%nat.
Proof. unfold Bound. lia. Qed.

Lemma stream_read_spec k sg : forall out sg', stream_read k sg = (out, sg') ->
  concat sg = out ++ concat sg' /\ lenN out <= k /\ (0 < k -> out = [] -> concat sg = []).
Proof.
  induction sg as [|g rest IH]; intros out sg' H.
  - cbn [stream_read] in H. inversion H. subst. cbn [concat app]. rewrite lenN_nil. repeat split; lia.
  - destruct g as [|x g].
    + cbn [stream_read] in H. cbn [concat app]. apply IH. exact H.
    + cbn [stream_read] in H. remember (x :: g) as G eqn:EG.
      assert (HG : G <> []) by (subst G; discriminate).
      assert (Hout : out = firstnN k G).
      { destruct (skipnN k G); inversion H; reflexivity. }
      assert (Hcat : concat (G :: rest) = out ++ concat sg').
      { cbn [concat]. subst out. destruct (skipnN k G) as [|y g'] eqn:Esk; inversion H; subst sg'.
        - rewrite <- (firstnN_skipnN k G) at 1. rewrite Esk, app_nil_r. reflexivity.
        - cbn [concat]. rewrite <- Esk, app_assoc, firstnN_skipnN. reflexivity. }
      split; [exact Hcat|]. split.
      * subst out. apply lenN_firstnN_le.
      * intros Hk Ho. subst out. exfalso. exact (firstnN_nonempty k G Hk HG Ho).
Qed.

Lemma inner_read_spec k l sg out l' sg' : inner_read k l sg = (out, l', sg') ->
  l ++ concat sg = out ++ l' ++ concat sg' /\ lenN out <= k /\ (0 < k -> out = [] -> l ++ concat sg = []).
Proof.
  unfold inner_read. destruct l as [|x l].
  - destruct (stream_read k sg) as [o s2] eqn:E. intros H. inversion H. subst.
    cbn [app]. apply stream_read_spec. exact E.
  - remember (x :: l) as L eqn:EL. intros H. injection H as H1 H2 H3. subst out l' sg'. split; [|split].
    + rewrite app_assoc, firstnN_skipnN. reflexivity.
    + apply lenN_firstnN_le.
    + intros Hk Ho. exfalso. apply (firstnN_nonempty k L Hk); [subst L; discriminate|exact Ho].
Qed.

Lemma take_read_spec k s out l' sg' tk : take_read k s = (out, l', sg', tk) ->
  tail3 (lo s) (segs s) (stake s) = out ++ tail3 l' sg' tk /\ lenN out <= k /\
  (0 < k -> out = [] -> tail3 (lo s) (segs s) (stake s) = []).
Proof.
  unfold take_read, tail3. destruct (stake s) as [lim|].
  - destruct (N.eqb_spec lim 0) as [E0|E0].
    + intros H. inversion H. subst. rewrite !firstnN_0, lenN_nil. repeat split; lia.
    + destruct (inner_read (N.min k lim) (lo s) (segs s)) as [[o l1] sg1] eqn:E.
      intros H. inversion H. subst o l1 sg1 tk. clear H.
      apply inner_read_spec in E. destruct E as [E1 [E2 E3]].
      rewrite E1. split; [apply firstnN_app_le; lia|]. split; [lia|].
      intros Hk Ho. rewrite <- E1, E3 by (lia || exact Ho). reflexivity.
  - destruct (inner_read k (lo s) (segs s)) as [[o l1] sg1] eqn:E.
    intros H. inversion H. subst o l1 sg1 tk. clear H.
    apply inner_read_spec in E. exact E.
Qed.

Lemma fill_buf_spec s :
  reach (fill_buf s) = reach s /\ sfuel (fill_buf s) = sfuel s /\
  (bbuf (fill_buf s) = [] -> reach s = []).
Proof.
  unfold fill_buf. destruct (bbuf s) as [|x b] eqn:Eb.
  - destruct (take_read BUF_SIZE s) as [[[out l'] sg'] tk] eqn:E.
    apply take_read_spec in E. destruct E as [E1 [E2 E3]].
    unfold reach. cbn [bbuf lo segs sfuel stake]. rewrite Eb. cbn [app].
    split; [symmetry; exact E1|]. split; [reflexivity|].
    intros Ho. apply E3; [reflexivity|exact Ho].
  - split; [reflexivity|]. split; [reflexivity|]. rewrite Eb. discriminate.
Qed.

Lemma fill_buf_rest s : reach (fill_buf s) = reach s.
Proof. apply fill_buf_spec. Qed.
Lemma fill_buf_fuel s : sfuel (fill_buf s) = sfuel s.
Proof. apply fill_buf_spec. Qed.
Lemma fill_buf_Bound s : Bound s -> Bound (fill_buf s).
Proof. apply Bound_shrink; [apply fill_buf_fuel|rewrite fill_buf_rest; lia]. Qed.

(* consuming a prefix of the buffer *)
Lemma consume_prefix s out t : bbuf s = out ++ t ->
  reach s = out ++ reach (consume (lenN out) s) /\ sfuel (consume (lenN out) s) = sfuel s.
Proof.
  intros Hb. unfold reach, consume. cbn [bbuf lo segs sfuel stake]. rewrite Hb, skipnN_app_len.
  rewrite <- app_assoc. split; reflexivity.
Qed.

Lemma consume_firstnN s k :
  reach s = firstnN k (bbuf s) ++ reach (consume k s) /\ sfuel (consume k s) = sfuel s.
Proof.
  unfold reach, consume. cbn [bbuf lo segs sfuel stake].
  rewrite (app_assoc (firstnN k (bbuf s))), firstnN_skipnN.
  split; reflexivity.
Qed.

Lemma buf_read_spec k s out s' : buf_read k s = (out, s') ->
  reach s = out ++ reach s' /\ lenN out <= k /\ sfuel s' = sfuel s /\
  (0 < k -> out = [] -> reach s = []).
Proof.
  unfold buf_read. destruct (bbuf s) as [|x b] eqn:Eb.
  - destruct (N.leb BUF_SIZE k).
    + destruct (take_read k s) as [[[o l'] sg'] tk] eqn:E. intros H. inversion H. subst.
      apply take_read_spec in E. destruct E as [E1 [E2 E3]].
      unfold reach. cbn [bbuf lo segs sfuel stake]. rewrite Eb. cbn [app].
      repeat split; assumption.
    + intros H. injection H as H1 H2. subst out s'.
      destruct (consume_firstnN (fill_buf s) k) as [C1 C2].
      destruct (fill_buf_spec s) as [F1 [F2 F3]].
      split; [rewrite <- F1; exact C1|]. split; [apply lenN_firstnN_le|]. split; [congruence|].
      intros Hk Ho. apply F3. destruct (bbuf (fill_buf s)) as [|y bb] eqn:Ebb; [reflexivity|].
      exfalso. apply (firstnN_nonempty k (y :: bb) Hk); [discriminate|exact Ho].
  - rewrite <- Eb. intros H. injection H as H1 H2. subst out s'.
    destruct (consume_firstnN s k) as [C1 C2].
    split; [exact C1|]. split; [apply lenN_firstnN_le|]. split; [exact C2|].
    intros Hk Ho. exfalso. rewrite Eb in Ho.
    apply (firstnN_nonempty k (x :: b) Hk); [discriminate|exact Ho].
Qed.

(* read_exact *)
Lemma read_exact_loop_spec fuel : forall n s acc, (N.to_nat n <= fuel)%nat ->
  match read_exact_loop fuel n s acc with
  | Some (x, s') => exists y, x = acc ++ y /\ reach s = y ++ reach s' /\ lenN y = n /\ sfuel s' = sfuel s
  | None => lenN (reach s) < n
  end.
Proof.
  induction fuel as [|fuel IH]; intros n s acc Hf.
  - assert (n = 0) by lia. subst n. cbn [read_exact_loop N.eqb].
    exists []. rewrite app_nil_r. repeat split; reflexivity.
  - cbn [read_exact_loop]. destruct (N.eqb_spec n 0) as [E|E].
    + subst n. exists []. rewrite app_nil_r. repeat split; reflexivity.
    + destruct (buf_read n s) as [out s1] eqn:Ebr.
      apply buf_read_spec in Ebr. destruct Ebr as [B1 [B2 [B3 B4]]].
      destruct out as [|o out].
      * rewrite B4 by (lia || reflexivity). rewrite lenN_nil. lia.
      * remember (o :: out) as O eqn:EO.
        assert (HO : 0 < lenN O) by (apply lenN_pos; subst O; discriminate).
        specialize (IH (n - lenN O) s1 (acc ++ O)).
        assert (Hf' : (N.to_nat (n - lenN O) <= fuel)%nat) by lia.
        specialize (IH Hf').
        destruct (read_exact_loop fuel (n - lenN O) s1 (acc ++ O)) as [[x s2]|].
        -- destruct IH as [y [Y1 [Y2 [Y3 Y4]]]]. exists (O ++ y).
           split; [rewrite Y1, app_assoc; reflexivity|].
           split; [rewrite B1, Y2, app_assoc; reflexivity|].
           split; [rewrite lenN_app; lia|congruence].
        -- rewrite B1, lenN_app. lia.
Qed.

Lemma read_exact_spec n s :
  match read_exact n s with
  | Some (x, s') => reach s = x ++ reach s' /\ lenN x = n /\ sfuel s' = sfuel s
  | None => lenN (reach s) < n
  end.
Proof.
  unfold read_exact. destruct (N.leb_spec n (lenN (firstnN n (bbuf s)))) as [L|L].
  - destruct (consume_firstnN s n) as [C1 C2]. split; [exact C1|]. split; [|exact C2].
    pose proof (lenN_firstnN_le n (bbuf s)). lia.
  - pose proof (read_exact_loop_spec (N.to_nat n) n s [] (le_n _)) as H.
    destruct (read_exact_loop (N.to_nat n) n s []) as [[x s']|]; [|exact H].
    destruct H as [y [Y1 [Y2 [Y3 Y4]]]]. cbn [app] in Y1. subst y. repeat split; assumption.
Qed.

(* ------------------------------------------------------------------ lines *)
Lemma byte_eqb_sym a b : Byte.eqb a b = Byte.eqb b a.
Proof.
  destruct (Byte.eqb a b) eqn:E1; destruct (Byte.eqb b a) eqn:E2; try reflexivity.
  - apply byte_eqb_eq in E1. subst. rewrite (proj2 (byte_eqb_eq b b) eq_refl) in E2. discriminate.
  - apply byte_eqb_eq in E2. subst. rewrite (proj2 (byte_eqb_eq a a) eq_refl) in E1. discriminate.
Qed.

Lemma byte_eqb_refl a : Byte.eqb a a = true.
Proof. apply byte_eqb_eq. reflexivity. Qed.

Lemma to_lf_some l before rest : to_lf l = Some (before, rest) ->
  l = before ++ x0a :: rest /\ forallb (fun b => negb (Byte.eqb b x0a)) before = true.
Proof.
  revert before rest. induction l as [|b r IH]; intros before rest H; [discriminate|].
  cbn [to_lf] in H. destruct (Byte.eqb b x0a) eqn:E.
  - inversion H. subst. apply byte_eqb_eq in E. subst b. split; reflexivity.
  - destruct (to_lf r) as [[x y]|] eqn:E2; [|discriminate]. inversion H. subst.
    destruct (IH _ _ eq_refl) as [H1 H2]. subst r. split; [reflexivity|].
    cbn [forallb]. rewrite E, H2. reflexivity.
Qed.

Lemma to_lf_app_nolf a r : forallb (fun b => negb (Byte.eqb b x0a)) a = true ->
  to_lf (a ++ r) = match to_lf r with Some (x, y) => Some (a ++ x, y) | None => None end.
Proof.
  induction a as [|b a IH]; intros H.
  - cbn [app]. destruct (to_lf r) as [[x y]|]; reflexivity.
  - cbn [forallb] in H. apply andb_true_iff in H. destruct H as [H1 H2].
    cbn [app to_lf]. apply negb_true_iff in H1. rewrite H1, (IH H2).
    destruct (to_lf r) as [[x y]|]; reflexivity.
Qed.

Lemma to_lf_none_nolf l : to_lf l = None -> forallb (fun b => negb (Byte.eqb b x0a)) l = true.
Proof.
  induction l as [|b r IH]; intros H; [reflexivity|].
  cbn [to_lf] in H. destruct (Byte.eqb b x0a) eqn:E; [discriminate|].
  destruct (to_lf r) as [[x y]|] eqn:E2; [discriminate|].
  cbn [forallb]. rewrite E, (IH eq_refl). reflexivity.
Qed.

Lemma to_lf_shorter l before rest : to_lf l = Some (before, rest) -> (length rest < length l)%nat.
Proof.
  intros H. apply to_lf_some in H. destruct H as [H _]. subst l. rewrite app_length. cbn [length]. lia.
Qed.

Lemma find_index_lf_some a i r : find_index (Byte.eqb x0a) a = Some i ->
  to_lf (a ++ r) = Some (firstn i a, skipn (S i) a ++ r) /\ firstn (S i) a = firstn i a ++ [x0a].
Proof.
  revert i. induction a as [|b a IH]; intros i H; [discriminate|].
  cbn [find_index] in H. cbn [app to_lf]. rewrite (byte_eqb_sym b x0a).
  destruct (Byte.eqb x0a b) eqn:E.
  - inversion H. subst i. apply byte_eqb_eq in E. subst b. split; reflexivity.
  - destruct (find_index (Byte.eqb x0a) a) as [j|] eqn:Ej; [|discriminate].
    cbn [option_map] in H. inversion H. subst i.
    destruct (IH j eq_refl) as [H1 H2]. rewrite H1. split; [reflexivity|].
    change (firstn (S (S j)) (b :: a)) with (b :: firstn (S j) a). rewrite H2. reflexivity.
Qed.

Lemma find_index_lf_none a : find_index (Byte.eqb x0a) a = None ->
  forallb (fun b => negb (Byte.eqb b x0a)) a = true.
Proof.
  induction a as [|b a IH]; intros H; [reflexivity|].
  cbn [find_index] in H. cbn [forallb]. rewrite (byte_eqb_sym b x0a).
  destruct (Byte.eqb x0a b) eqn:E; [discriminate|].
  destruct (find_index (Byte.eqb x0a) a) as [j|] eqn:Ej; [discriminate|].
  rewrite (IH eq_refl). reflexivity.
Qed.

(* what read_until_lf / read_line deliver, in terms of the spec's [to_lf] *)
Definition line_of (U line rest : bytes) : Prop :=
  match to_lf U with
  | Some (before, r) => line = before ++ [x0a] /\ rest = r
  | None => line = U /\ rest = []
  end.

Lemma read_until_lf_spec fuel : forall s acc, (length (reach s) < fuel)%nat ->
  exists line s', read_until_lf fuel s acc = (acc ++ line, s') /\ sfuel s' = sfuel s /\
                  line_of (reach s) line (reach s').
Proof.
  induction fuel as [|fuel IH]; intros s acc Hf; [lia|].
  cbn [read_until_lf].
  destruct (fill_buf_spec s) as [F1 [F2 F3]].
  remember (fill_buf s) as s1 eqn:Es1.
  assert (HU : reach s = bbuf s1 ++ tail3 (lo s1) (segs s1) (stake s1)) by (rewrite <- F1; reflexivity).
  destruct (find_index (Byte.eqb x0a) (bbuf s1)) as [i|] eqn:Efi.
  - destruct (find_index_lf_some _ i (tail3 (lo s1) (segs s1) (stake s1)) Efi) as [T1 T2].
    exists (firstn (S i) (bbuf s1)), (consume (N.of_nat (S i)) s1).
    split; [reflexivity|]. split; [cbn [consume sfuel]; exact F2|].
    unfold line_of. rewrite HU, T1. split; [exact T2|].
    unfold reach, consume. cbn [bbuf lo segs stake]. rewrite skipnN_of_nat. reflexivity.
  - apply find_index_lf_none in Efi.
    destruct (bbuf s1) as [|x b] eqn:Eb.
    + exists [], s1. rewrite app_nil_r. split; [reflexivity|]. split; [exact F2|].
      unfold line_of. rewrite (F3 eq_refl). cbn [to_lf]. split; [reflexivity|].
      rewrite F1. apply F3. reflexivity.
    + rewrite <- Eb in *. remember (bbuf s1) as A eqn:EA.
      assert (HA : A <> []) by (rewrite Eb; discriminate).
      set (s2 := consume (lenN A) s1).
      assert (H2 : reach s2 = tail3 (lo s1) (segs s1) (stake s1)).
      { unfold s2, reach, consume. cbn [bbuf lo segs stake]. rewrite <- EA.
        rewrite <- (app_nil_r A) at 2. rewrite skipnN_app_len. reflexivity. }
      assert (Hlen : (length (reach s2) < fuel)%nat).
      { rewrite H2. rewrite HU, app_length in Hf. destruct A; [congruence|]. cbn [length] in Hf. lia. }
      destruct (IH s2 (acc ++ A) Hlen) as [line [s' [R1 [R2 R3]]]].
      exists (A ++ line), s'. rewrite Eb at 1. rewrite <- Eb.
      split; [rewrite R1, app_assoc; reflexivity|].
      split; [rewrite R2; unfold s2; cbn [consume sfuel]; exact F2|].
      unfold line_of in *. rewrite HU, (to_lf_app_nolf A _ Efi). rewrite H2 in R3.
      destruct (to_lf (tail3 (lo s1) (segs s1) (stake s1))) as [[bf r]|].
      * destruct R3 as [R3 R4]. subst line. rewrite app_assoc. split; [reflexivity|exact R4].
      * destruct R3 as [R3 R4]. subst line. split; [reflexivity|exact R4].
Qed.

Lemma read_line_spec s : Bound s ->
  exists line s', read_line s = ((if utf8_valid line then inl line else inr EInvalidData), s') /\
                  sfuel s' = sfuel s /\ line_of (reach s) line (reach s').
Proof.
  intros Hb. apply Bound_fuel in Hb. destruct Hb as [Hb _].
  destruct (read_until_lf_spec (sfuel s) s [] Hb) as [line [s' [R1 [R2 R3]]]].
  exists line, s'. unfold read_line. rewrite R1. cbn [app].
  destruct (utf8_valid line); repeat split; assumption.
Qed.

Lemma line_of_shrink U line rest : line_of U line rest -> U = line ++ rest.
Proof.
  unfold line_of. destruct (to_lf U) as [[bf r]|] eqn:E.
  - intros [H1 H2]. subst. apply to_lf_some in E. destruct E as [E _]. rewrite E, <- app_assoc. reflexivity.
  - intros [H1 H2]. subst. rewrite app_nil_r. reflexivity.
Qed.

(* the piece a BufRead caller takes: a prefix of the buffer, at most [r] bytes, non-empty *)
Lemma bufread_piece a r b : 0 < a -> 0 < r -> b <> [] ->
  let avail := firstnN r b in let got := firstnN a avail in
  avail <> [] /\ got <> [] /\ lenN got <= r /\ exists t, b = got ++ t.
Proof.
  intros Ha Hr Hb avail got.
  assert (Hav : avail <> []) by (apply firstnN_nonempty; assumption).
  split; [exact Hav|]. split; [apply firstnN_nonempty; assumption|]. split.
  - pose proof (lenN_firstnN_le r b) as H1. fold avail in H1.
    assert (H2 : lenN got <= lenN avail).
    { assert (H3 : lenN avail = lenN got + lenN (skipnN a avail)).
      { rewrite <- lenN_app. unfold got. rewrite firstnN_skipnN. reflexivity. }
      lia. }
    lia.
  - exists (skipnN a avail ++ skipnN r b). rewrite app_assoc. unfold got. rewrite firstnN_skipnN.
    unfold avail. rewrite firstnN_skipnN. reflexivity.
Qed.

(* ------------------------------------------------------------------ driver steps *)
Lemma read_all_more b k sizes acc out b' : body_read k b = ROk out b' -> out <> [] ->
  read_all b (k :: sizes) acc = read_all b' sizes (acc ++ out).
Proof. intros H Hne. cbn [read_all]. rewrite H. destruct out; [congruence|reflexivity]. Qed.

Lemma read_all_eof b k sizes acc b' : body_read k b = ROk [] b' ->
  read_all b (k :: sizes) acc = (acc, AtEof, b').
Proof. intros H. cbn [read_all]. rewrite H. reflexivity. Qed.

Lemma read_all_err b k sizes acc e b' : body_read k b = RErr e b' ->
  read_all b (k :: sizes) acc = (acc, Failed e, b').
Proof. intros H. cbn [read_all]. rewrite H. reflexivity. Qed.

Lemma bufread_all_more b a amts acc avail b' : body_fill_buf b = ROk avail b' -> avail <> [] ->
  bufread_all b (a :: amts) acc =
  bufread_all (body_consume (lenN (firstnN a avail)) b') amts (acc ++ firstnN a avail).
Proof. intros H Hne. cbn [bufread_all]. rewrite H. destruct avail; [congruence|reflexivity]. Qed.

Lemma bufread_all_eof b a amts acc b' : body_fill_buf b = ROk [] b' ->
  bufread_all b (a :: amts) acc = (acc, AtEof, b').
Proof. intros H. cbn [bufread_all]. rewrite H. reflexivity. Qed.

Lemma bufread_all_err b a amts acc e b' : body_fill_buf b = RErr e b' ->
  bufread_all b (a :: amts) acc = (acc, Failed e, b').
Proof. intros H. cbn [bufread_all]. rewrite H. reflexivity. Qed.

Lemma fixed_fill_buf_eq r : f_remaining r <> 0 ->
  fixed_fill_buf r =
  match bbuf (fill_buf (f_src r)) with
  | [] => RErr EUnexpectedEof {| f_src := fill_buf (f_src r); f_remaining := f_remaining r |}
  | _ :: _ => ROk (firstnN (f_remaining r) (bbuf (fill_buf (f_src r))))
                  {| f_src := fill_buf (f_src r); f_remaining := f_remaining r |}
  end.
Proof.
  intros Hr. unfold fixed_fill_buf. destruct (N.eqb_spec (f_remaining r) 0) as [E|E]; [contradiction|].
  destruct (bbuf (fill_buf (f_src r))); reflexivity.
Qed.

(* (fix F38) for a non-empty caller buffer FixedReader::read is what it was before the empty-buffer guard *)
Lemma fixed_read_pos k r : 0 < k ->
  fixed_read k r =
  if N.eqb (f_remaining r) 0 then ROk [] r
  else
    let '(out, s') := buf_read (N.min (f_remaining r) k) (f_src r) in
    match out with
    | [] => RErr EUnexpectedEof {| f_src := s'; f_remaining := f_remaining r |}
    | _ => ROk out {| f_src := s'; f_remaining := (f_remaining r - lenN out)%N |}
    end.
Proof.
  intros Hk. unfold fixed_read. destruct (N.eqb_spec k 0) as [E|E]; [lia|].
  rewrite orb_false_r. reflexivity.
Qed.

Lemma fixed_read_0 r : fixed_read 0 r = ROk [] r.
Proof. unfold fixed_read. rewrite N.eqb_refl, orb_true_r. reflexivity. Qed.
