(* The router's literal table: sort_unstable_by + binary_search_by_key = the linear lookup of
   Model/Router.v.  Replaces the modelling assumption in the comment above Router.find_literal
   ("sort_unstable_by + binary_search_by_key over unique keys finds the entry") by theorems about
   Model/BinSearch.v.

   Contents
     1. u8 / [u8] order: strict total order, agrees with bytes_eqb, lexicographic characterisation
     2. sorted tables: all-pairs form, distinct keys, one value per key
     3. binary search never gets stuck (fuel, bounds), on any array
     4. binary search on a sorted table is a lookup (both std versions)
     5. sorting: the insertion sort meets is_sort_of; is_sort_of is functional
     6. linear lookup; the connecting theorem
     7. the router: registration keeps keys distinct; finalize + binary search = find_literal;
        match_route_bs = match_route
     8. examples *)
From KV Require Import Lib.Bytes Model.Router Model.BinSearch.
From Coq Require Import Arith Sorting.Permutation Sorting.Sorted.

(* ================================================================== *)
(* 1. the order                                                        *)
(* ================================================================== *)

Lemma b2n_inj x y : b2n x = b2n y -> x = y.
Proof.
  unfold b2n. intros H.
  pose proof (Byte.of_to_N x) as Hx. pose proof (Byte.of_to_N y) as Hy.
  rewrite H in Hx. rewrite Hx in Hy. injection Hy. trivial.
Qed.

Lemma byte_cmp_refl x : byte_cmp x x = Eq.
Proof. apply N.compare_refl. Qed.

Lemma byte_cmp_eq x y : byte_cmp x y = Eq -> x = y.
Proof. unfold byte_cmp. intros H. apply N.compare_eq_iff in H. apply b2n_inj, H. Qed.

Lemma byte_cmp_antisym x y : byte_cmp y x = CompOpp (byte_cmp x y).
Proof. apply N.compare_antisym. Qed.

Lemma byte_cmp_lt x y : byte_cmp x y = Lt <-> (b2n x < b2n y)%N.
Proof. apply N.compare_lt_iff. Qed.

Lemma byte_cmp_lt_trans x y z : byte_cmp x y = Lt -> byte_cmp y z = Lt -> byte_cmp x z = Lt.
Proof. rewrite !byte_cmp_lt. apply N.lt_trans. Qed.

Lemma bytes_cmp_refl a : bytes_cmp a a = Eq.
Proof.
  induction a as [|x a IH]; [reflexivity|].
  cbn [bytes_cmp]. rewrite byte_cmp_refl. exact IH.
Qed.

Lemma bytes_cmp_eq a : forall b, bytes_cmp a b = Eq -> a = b.
Proof.
  induction a as [|x a IH]; intros [|y b] H; cbn [bytes_cmp] in H; try discriminate; [reflexivity|].
  destruct (byte_cmp x y) eqn:E; try discriminate.
  apply byte_cmp_eq in E. subst y. f_equal. apply IH, H.
Qed.

Lemma bytes_cmp_eq_iff a b : bytes_cmp a b = Eq <-> a = b.
Proof. split; [apply bytes_cmp_eq | intros ->; apply bytes_cmp_refl]. Qed.

(* cmp(b, a) = cmp(a, b).reverse() *)
Lemma bytes_cmp_antisym a : forall b, bytes_cmp b a = CompOpp (bytes_cmp a b).
Proof.
  induction a as [|x a IH]; intros [|y b]; cbn [bytes_cmp]; try reflexivity.
  rewrite (byte_cmp_antisym x y). destruct (byte_cmp x y); cbn [CompOpp]; auto.
Qed.

Lemma bytes_cmp_gt_lt a b : bytes_cmp a b = Gt <-> bytes_cmp b a = Lt.
Proof.
  rewrite (bytes_cmp_antisym a b). destruct (bytes_cmp a b); cbn [CompOpp]; split; congruence.
Qed.

(* strict order: irreflexive, asymmetric, transitive *)
Theorem bytes_lt_irrefl a : ~ bytes_lt a a.
Proof. unfold bytes_lt. rewrite bytes_cmp_refl. discriminate. Qed.

Theorem bytes_lt_asym a b : bytes_lt a b -> ~ bytes_lt b a.
Proof. unfold bytes_lt. intros H. rewrite bytes_cmp_antisym, H. discriminate. Qed.

Theorem bytes_lt_trans a : forall b c, bytes_lt a b -> bytes_lt b c -> bytes_lt a c.
Proof.
  unfold bytes_lt.
  induction a as [|x a IH]; intros [|y b] [|z c] H1 H2; cbn [bytes_cmp] in *;
    try discriminate; try reflexivity.
  destruct (byte_cmp x y) eqn:E1; try discriminate.
  - apply byte_cmp_eq in E1. subst y.
    destruct (byte_cmp x z); try discriminate; [eapply IH; eassumption | reflexivity].
  - destruct (byte_cmp y z) eqn:E2; try discriminate.
    + apply byte_cmp_eq in E2. subst z. rewrite E1. reflexivity.
    + rewrite (byte_cmp_lt_trans _ _ _ E1 E2). reflexivity.
Qed.

(* total: exactly one of  a < b,  a = b,  b < a *)
Theorem bytes_lt_trichotomy a b : bytes_lt a b \/ a = b \/ bytes_lt b a.
Proof.
  unfold bytes_lt. destruct (bytes_cmp a b) eqn:E.
  - right. left. apply bytes_cmp_eq, E.
  - left. reflexivity.
  - right. right. apply bytes_cmp_gt_lt, E.
Qed.

Theorem bytes_lt_neq a b : bytes_lt a b -> a <> b.
Proof. intros H ->. exact (bytes_lt_irrefl _ H). Qed.

(* the three outcomes of bytes_cmp, as a specification *)
Theorem bytes_cmp_spec a b :
  CompareSpec (a = b) (bytes_lt a b) (bytes_lt b a) (bytes_cmp a b).
Proof.
  destruct (bytes_cmp a b) eqn:E; constructor.
  - apply bytes_cmp_eq, E.
  - exact E.
  - apply bytes_cmp_gt_lt, E.
Qed.

(* agreement with the equality test used everywhere else in the model *)
Lemma bytes_eqb_eq a : forall b, bytes_eqb a b = true <-> a = b.
Proof.
  induction a as [|x a IH]; intros [|y b]; cbn [bytes_eqb]; split; intros H;
    try discriminate; try reflexivity.
  - apply andb_true_iff in H. destruct H as [H1 H2].
    apply byte_eqb_eq in H1. apply IH in H2. subst. reflexivity.
  - injection H as -> ->. apply andb_true_iff. split; [apply byte_eqb_eq; reflexivity | apply IH; reflexivity].
Qed.

Theorem bytes_cmp_eqb a b : bytes_cmp a b = Eq <-> bytes_eqb a b = true.
Proof. rewrite bytes_cmp_eq_iff, bytes_eqb_eq. tauto. Qed.

Theorem bytes_lt_trichotomy_eqb a b :
  bytes_lt a b \/ bytes_eqb a b = true \/ bytes_lt b a.
Proof. rewrite bytes_eqb_eq. apply bytes_lt_trichotomy. Qed.

Lemma bytes_ltb_lt a b : bytes_ltb a b = true <-> bytes_lt a b.
Proof. unfold bytes_ltb, bytes_lt. destruct (bytes_cmp a b); split; congruence. Qed.

(* bytes_cmp is the lexicographic order: a < b iff a is a proper prefix of b, or they first differ
   at a position where a's byte has the smaller value *)
Theorem bytes_lt_lex a : forall b,
  bytes_lt a b <->
  (exists x r, b = a ++ x :: r) \/
  (exists p x y a' b', a = p ++ x :: a' /\ b = p ++ y :: b' /\ (b2n x < b2n y)%N).
Proof.
  unfold bytes_lt. induction a as [|x a IH]; intros [|y b]; cbn [bytes_cmp].
  - split; [discriminate|]. intros [(x & r & H)|(p & x & y & a' & b' & H & _)].
    + discriminate.
    + destruct p; discriminate.
  - split; [|reflexivity]. intros _. left. exists y, b. reflexivity.
  - split; [discriminate|]. intros [(z & r & H)|(p & z & y & a' & b' & _ & H & _)].
    + discriminate.
    + destruct p; discriminate.
  - destruct (byte_cmp x y) eqn:E.
    + apply byte_cmp_eq in E. subst y. rewrite IH. split.
      * intros [(z & r & H)|(p & z & y & a' & b' & Ha & Hb & Hlt)].
        -- left. exists z, r. subst b. reflexivity.
        -- right. exists (x :: p), z, y, a', b'. subst. auto.
      * intros [(z & r & H)|(p & z & y & a' & b' & Ha & Hb & Hlt)].
        -- left. exists z, r. cbn [app] in H. injection H. trivial.
        -- destruct p as [|q p]; cbn [app] in Ha, Hb.
           ++ injection Ha as -> ->. injection Hb as -> ->. lia.
           ++ injection Ha as -> ->. injection Hb as ->. right. exists p, z, y, a', b'. auto.
    + split; [|reflexivity]. intros _. right. exists [], x, y, a, b.
      apply byte_cmp_lt in E. auto.
    + split; [discriminate|].
      assert (Hge : ~ (b2n x < b2n y)%N /\ x <> y).
      { split.
        - intros H. apply byte_cmp_lt in H. congruence.
        - intros ->. rewrite byte_cmp_refl in E. discriminate. }
      destruct Hge as [Hge Hne].
      intros [(z & r & H)|(p & z & w & a' & b' & Ha & Hb & Hlt)].
      * cbn [app] in H. injection H as -> _. congruence.
      * destruct p as [|q p]; cbn [app] in Ha, Hb.
        -- injection Ha as -> ->. injection Hb as -> ->. contradiction.
        -- injection Ha as -> ->. injection Hb as -> ->. congruence.
Qed.

Corollary bytes_lt_prefix a x r : bytes_lt a (a ++ x :: r).
Proof. apply bytes_lt_lex. left. exists x, r. reflexivity. Qed.

(* ================================================================== *)
(* 2. sorted tables                                                    *)
(* ================================================================== *)

Lemma key_lt_trans : Relations_1.Transitive key_lt.
Proof. intros x y z. apply bytes_lt_trans. Qed.

Lemma sorted_strongly l : sorted_by_key l -> StronglySorted key_lt l.
Proof. apply Sorted_StronglySorted, key_lt_trans. Qed.

(* the array view: entries at increasing indices have increasing keys *)
Definition idx_sorted (a : list entry) : Prop :=
  forall i j x y, i < j -> nth_error a i = Some x -> nth_error a j = Some y -> key_lt x y.

Lemma strongly_idx_sorted l : StronglySorted key_lt l -> idx_sorted l.
Proof.
  induction 1 as [|e l Hs IH Hall]; intros i j x y Hij Hi Hj.
  - destruct i; discriminate.
  - destruct j as [|j]; [lia|]. cbn [nth_error] in Hj. destruct i as [|i].
    + cbn [nth_error] in Hi. injection Hi as ->.
      apply nth_error_In in Hj. rewrite Forall_forall in Hall. apply Hall, Hj.
    + cbn [nth_error] in Hi. apply (IH i j); [lia | assumption | assumption].
Qed.

Lemma sorted_idx_sorted l : sorted_by_key l -> idx_sorted l.
Proof. intros H. apply strongly_idx_sorted, sorted_strongly, H. Qed.

(* strictly increasing keys are pairwise distinct *)
Lemma sorted_keys_nodup l : sorted_by_key l -> NoDup (map fst l).
Proof.
  intros H. apply sorted_strongly in H.
  induction H as [|e l Hs IH Hall]; cbn [map]; constructor; [|exact IH].
  intros Hin. apply in_map_iff in Hin. destruct Hin as (y & Hy & Hin).
  rewrite Forall_forall in Hall. specialize (Hall y Hin).
  unfold key_lt in Hall. rewrite Hy in Hall. exact (bytes_lt_irrefl _ Hall).
Qed.

(* distinct keys: one value per key *)
Lemma nodup_keys_functional (l : list entry) k v v' :
  NoDup (map fst l) -> In (k, v) l -> In (k, v') l -> v = v'.
Proof.
  induction l as [|e l IH]; intros Hnd H1 H2; [destruct H1|].
  cbn [map] in Hnd. inversion Hnd as [|? ? Hnot Hnd']. subst.
  destruct H1 as [H1|H1], H2 as [H2|H2].
  - congruence.
  - exfalso. apply Hnot. subst e. apply (in_map fst) in H2. exact H2.
  - exfalso. apply Hnot. subst e. apply (in_map fst) in H1. exact H1.
  - apply IH; assumption.
Qed.

(* ================================================================== *)
(* 3. binary search does not get stuck                                 *)
(* ================================================================== *)

Definition bs_terminated (r : bs_result) : Prop :=
  match r with BsOk _ | BsErr _ => True | BsOutOfFuel | BsOutOfBounds => False end.

Lemma half_bounds s : 2 * (s / 2) <= s < 2 * (s / 2) + 2.
Proof.
  pose proof (Nat.div_mod s 2 ltac:(lia)). pose proof (Nat.mod_upper_bound s 2 ltac:(lia)). lia.
Qed.

Lemma log2_up_bound n : n <= 2 ^ Nat.log2_up n.
Proof.
  destruct n as [|[|n]]; [cbn; lia | cbn; lia |].
  apply Nat.log2_up_spec. lia.
Qed.

Lemma log2_bound n : n < 2 ^ S (Nat.log2 n).
Proof.
  destruct n as [|n]; [cbn; lia|]. apply Nat.log2_spec. lia.
Qed.

(* one unfolding of the loop (the test on size comes before the fuel is looked at) *)
Lemma bs_loop_eq fuel a k base size :
  bs_loop fuel a k base size =
  if size <=? 1 then
    match nth_error a base with
    | None => BsOutOfBounds
    | Some kv =>
        match bytes_cmp (fst kv) k with
        | Eq => BsOk base
        | Lt => BsErr (base + 1)
        | Gt => BsErr base
        end
    end
  else
    match fuel with
    | O => BsOutOfFuel
    | S fuel' =>
        match nth_error a (base + size / 2) with
        | None => BsOutOfBounds
        | Some kv =>
            bs_loop fuel' a k (match bytes_cmp (fst kv) k with Gt => base | _ => base + size / 2 end)
                    (size - size / 2)
        end
    end.
Proof. destruct fuel; reflexivity. Qed.

Lemma bs_loop_lr_eq fuel a k left right :
  bs_loop_lr fuel a k left right =
  if right <=? left then BsErr left
  else
    match fuel with
    | O => BsOutOfFuel
    | S fuel' =>
        match nth_error a (left + (right - left) / 2) with
        | None => BsOutOfBounds
        | Some kv =>
            match bytes_cmp (fst kv) k with
            | Lt => bs_loop_lr fuel' a k (left + (right - left) / 2 + 1) right
            | Gt => bs_loop_lr fuel' a k left (left + (right - left) / 2)
            | Eq => BsOk (left + (right - left) / 2)
            end
        end
    end.
Proof. destruct fuel; reflexivity. Qed.

(* Loop invariant of the Rust code: 1 <= size, base + size <= len.  With size <= 2^fuel the loop
   ends within the fuel and every index it reads is inside the array.  No sortedness needed: this
   is the memory-safety argument for the two get_unchecked calls. *)
Lemma bs_loop_total fuel : forall a k base size,
  1 <= size -> base + size <= length a -> size <= 2 ^ fuel ->
  bs_terminated (bs_loop fuel a k base size).
Proof.
  induction fuel as [|fuel IH]; intros a k base size H1 Hb Hf; rewrite bs_loop_eq;
    destruct (Nat.leb_spec size 1) as [Hle|Hgt].
  - destruct (nth_error a base) as [kv|] eqn:En.
    + destruct (bytes_cmp (fst kv) k); exact I.
    + apply nth_error_None in En. lia.
  - cbn in Hf. lia.
  - destruct (nth_error a base) as [kv|] eqn:En.
    + destruct (bytes_cmp (fst kv) k); exact I.
    + apply nth_error_None in En. lia.
  - pose proof (half_bounds size) as Hh. rewrite Nat.pow_succ_r' in Hf.
    destruct (nth_error a (base + size / 2)) as [kv|] eqn:En.
    + apply IH; [lia | destruct (bytes_cmp (fst kv) k); lia | lia].
    + apply nth_error_None in En. lia.
Qed.

Theorem binary_search_by_key_total a k : bs_terminated (binary_search_by_key a k).
Proof.
  unfold binary_search_by_key. destruct (length a) as [|n] eqn:El; [exact I|].
  rewrite <- El. apply bs_loop_total; [lia | lia | apply log2_up_bound].
Qed.

Lemma bs_loop_lr_total fuel : forall a k left right,
  right <= length a -> right - left < 2 ^ fuel ->
  bs_terminated (bs_loop_lr fuel a k left right).
Proof.
  induction fuel as [|fuel IH]; intros a k left right Hb Hf; rewrite bs_loop_lr_eq;
    destruct (Nat.leb_spec right left) as [Hle|Hgt]; try exact I.
  - cbn in Hf. lia.
  - pose proof (half_bounds (right - left)) as Hh. rewrite Nat.pow_succ_r' in Hf.
    destruct (nth_error a (left + (right - left) / 2)) as [kv|] eqn:En.
    + destruct (bytes_cmp (fst kv) k); [exact I | apply IH; lia | apply IH; lia].
    + apply nth_error_None in En. lia.
Qed.

Theorem binary_search_by_key_lr_total a k : bs_terminated (binary_search_by_key_lr a k).
Proof.
  unfold binary_search_by_key_lr. apply bs_loop_lr_total; [lia|].
  rewrite Nat.sub_0_r. apply log2_bound.
Qed.

(* ================================================================== *)
(* 4. binary search on a sorted table is a lookup                      *)
(* ================================================================== *)

(* what a finished search says about the table *)
Definition bs_sound (a : list entry) (k : bytes) (r : bs_result) : Prop :=
  match r with
  | BsOk i => exists v, nth_error a i = Some (k, v)
  | BsErr _ => forall v, ~ In (k, v) a
  | BsOutOfFuel | BsOutOfBounds => False
  end.

(* the window [lo, hi) contains every position that holds key k *)
Definition window (a : list entry) (k : bytes) (lo hi : nat) : Prop :=
  forall j kv, nth_error a j = Some kv -> fst kv = k -> lo <= j < hi.

Lemma window_empty a k lo hi : window a k lo hi -> hi <= lo -> forall v, ~ In (k, v) a.
Proof.
  intros Hw Hle v Hin. apply In_nth_error in Hin. destruct Hin as (j & Hj).
  specialize (Hw j (k, v) Hj eq_refl). lia.
Qed.

(* if a[m] <= k (Less or Equal) then k is not left of m; if a[m] > k then k is left of m *)
Lemma window_left a k m kv :
  idx_sorted a -> nth_error a m = Some kv -> bytes_cmp (fst kv) k <> Gt ->
  forall j kv', nth_error a j = Some kv' -> fst kv' = k -> m <= j.
Proof.
  intros Hs Hm Hc j kv' Hj Hk. destruct (le_lt_dec m j) as [|Hlt]; [assumption|exfalso].
  specialize (Hs j m kv' kv Hlt Hj Hm). unfold key_lt in Hs. rewrite Hk in Hs.
  apply Hc. apply bytes_cmp_gt_lt. exact Hs.
Qed.

Lemma window_right a k m kv :
  idx_sorted a -> nth_error a m = Some kv -> bytes_cmp (fst kv) k <> Lt ->
  bytes_cmp (fst kv) k <> Eq ->
  forall j kv', nth_error a j = Some kv' -> fst kv' = k -> j < m.
Proof.
  intros Hs Hm Hc Hne j kv' Hj Hk. destruct (le_lt_dec m j) as [Hle|]; [exfalso|assumption].
  destruct (Nat.eq_dec m j) as [->|Hneq].
  - rewrite Hm in Hj. injection Hj as ->. apply Hne. rewrite Hk. apply bytes_cmp_refl.
  - assert (Hlt : m < j) by lia.
    specialize (Hs m j kv kv' Hlt Hm Hj). unfold key_lt in Hs. rewrite Hk in Hs. exact (Hc Hs).
Qed.

(* the final comparison, when the window is the single position base *)
Lemma bs_exit_sound a k base :
  base < length a -> window a k base (base + 1) ->
  bs_sound a k
    match nth_error a base with
    | None => BsOutOfBounds
    | Some kv =>
        match bytes_cmp (fst kv) k with
        | Eq => BsOk base
        | Lt => BsErr (base + 1)
        | Gt => BsErr base
        end
    end.
Proof.
  intros Hb Hw. destruct (nth_error a base) as [[k' v']|] eqn:En.
  - cbn [fst]. destruct (bytes_cmp k' k) eqn:Ec; cbn [bs_sound].
    + apply bytes_cmp_eq in Ec. subst k'. exists v'. exact En.
    + intros v Hin. apply In_nth_error in Hin. destruct Hin as (j & Hj).
      pose proof (Hw j (k, v) Hj eq_refl) as Hjb. assert (Hjeq : j = base) by lia.
      subst j. pose proof (eq_trans (eq_sym En) Hj) as E2. injection E2 as -> _.
      rewrite bytes_cmp_refl in Ec. discriminate.
    + intros v Hin. apply In_nth_error in Hin. destruct Hin as (j & Hj).
      pose proof (Hw j (k, v) Hj eq_refl) as Hjb. assert (Hjeq : j = base) by lia.
      subst j. pose proof (eq_trans (eq_sym En) Hj) as E2. injection E2 as -> _.
      rewrite bytes_cmp_refl in Ec. discriminate.
  - apply nth_error_None in En. lia.
Qed.

Lemma bs_loop_sound fuel : forall a k base size,
  idx_sorted a ->
  1 <= size -> base + size <= length a -> size <= 2 ^ fuel ->
  window a k base (base + size) ->
  bs_sound a k (bs_loop fuel a k base size).
Proof.
  induction fuel as [|fuel IH]; intros a k base size Hs H1 Hb Hf Hw; rewrite bs_loop_eq;
    destruct (Nat.leb_spec size 1) as [Hle|Hgt].
  1, 3: assert (size = 1) by lia; subst size; apply bs_exit_sound; [lia | assumption].
  - cbn in Hf. lia.
  - pose proof (half_bounds size) as Hh. rewrite Nat.pow_succ_r' in Hf.
    destruct (nth_error a (base + size / 2)) as [kv|] eqn:En.
    2: { apply nth_error_None in En. cbn [bs_sound]. lia. }
    destruct (bytes_cmp (fst kv) k) eqn:Ec.
    + apply IH; try assumption; try lia.
      intros j kv' Hj Hk. pose proof (Hw j kv' Hj Hk).
      assert (base + size / 2 <= j) by (eapply window_left; eauto; congruence). lia.
    + apply IH; try assumption; try lia.
      intros j kv' Hj Hk. pose proof (Hw j kv' Hj Hk).
      assert (base + size / 2 <= j) by (eapply window_left; eauto; congruence). lia.
    + apply IH; try assumption; try lia.
      intros j kv' Hj Hk. pose proof (Hw j kv' Hj Hk).
      assert (j < base + size / 2) by (eapply window_right; eauto; congruence). lia.
Qed.

Lemma window_full a k : window a k 0 (length a).
Proof.
  intros j kv Hj _. split; [lia|]. apply nth_error_Some. congruence.
Qed.

Lemma binary_search_by_key_sound a k :
  sorted_by_key a -> bs_sound a k (binary_search_by_key a k).
Proof.
  intros Hs. unfold binary_search_by_key. destruct (length a) as [|n] eqn:El.
  - apply length_zero_iff_nil in El. subst a. intros v [].
  - rewrite <- El. apply bs_loop_sound;
      [apply sorted_idx_sorted, Hs | lia | lia | apply log2_up_bound | apply window_full].
Qed.

Lemma bs_loop_lr_sound fuel : forall a k left right,
  idx_sorted a ->
  right <= length a -> right - left < 2 ^ fuel ->
  window a k left right ->
  bs_sound a k (bs_loop_lr fuel a k left right).
Proof.
  induction fuel as [|fuel IH]; intros a k left right Hs Hb Hf Hw; rewrite bs_loop_lr_eq;
    destruct (Nat.leb_spec right left) as [Hle|Hgt].
  1, 3: cbn [bs_sound]; eapply window_empty; eassumption.
  - cbn in Hf. lia.
  - pose proof (half_bounds (right - left)) as Hh. rewrite Nat.pow_succ_r' in Hf.
    destruct (nth_error a (left + (right - left) / 2)) as [kv|] eqn:En.
    2: { apply nth_error_None in En. cbn [bs_sound]. lia. }
    destruct (bytes_cmp (fst kv) k) eqn:Ec.
    + cbn [bs_sound]. destruct kv as [k' v']. cbn [fst] in Ec.
      apply bytes_cmp_eq in Ec. subst k'. exists v'. exact En.
    + apply IH; try assumption; try lia.
      intros j kv' Hj Hk. pose proof (Hw j kv' Hj Hk).
      assert (left + (right - left) / 2 <= j) by (eapply window_left; eauto; congruence).
      assert (j <> left + (right - left) / 2).
      { intros ->. rewrite En in Hj. injection Hj as ->. rewrite Hk, bytes_cmp_refl in Ec.
        discriminate. }
      lia.
    + apply IH; try assumption; try lia.
      intros j kv' Hj Hk. pose proof (Hw j kv' Hj Hk).
      assert (j < left + (right - left) / 2) by (eapply window_right; eauto; congruence). lia.
Qed.

Lemma binary_search_by_key_lr_sound a k :
  sorted_by_key a -> bs_sound a k (binary_search_by_key_lr a k).
Proof.
  intros Hs. unfold binary_search_by_key_lr. apply bs_loop_lr_sound;
    [apply sorted_idx_sorted, Hs | lia | rewrite Nat.sub_0_r; apply log2_bound | apply window_full].
Qed.

(* from a sound finished search to the lookup statements; shared by both versions *)
Section Lookup.
  Variable search : list entry -> bytes -> bs_result.
  Hypothesis search_sound : forall a k, sorted_by_key a -> bs_sound a k (search a k).

  Let lookup (a : list entry) (k : bytes) : option N :=
    match search a k with
    | BsOk i => option_map snd (nth_error a i)
    | _ => None
    end.

  Lemma lookup_Some a k v : sorted_by_key a -> (lookup a k = Some v <-> In (k, v) a).
  Proof.
    intros Hs. pose proof (search_sound a k Hs) as H. unfold lookup.
    destruct (search a k) as [i|i| |]; cbn [bs_sound] in H; try contradiction.
    - destruct H as (v0 & Hi). rewrite Hi. cbn [option_map snd]. split.
      + intros [= <-]. apply nth_error_In in Hi. exact Hi.
      + intros Hin. f_equal. apply nth_error_In in Hi.
        eapply nodup_keys_functional; [apply sorted_keys_nodup, Hs | exact Hi | exact Hin].
    - split; [discriminate|]. intros Hin. exfalso. exact (H v Hin).
  Qed.

  Lemma lookup_None a k : sorted_by_key a -> (lookup a k = None <-> forall v, ~ In (k, v) a).
  Proof.
    intros Hs. destruct (lookup a k) as [v|] eqn:E.
    - apply lookup_Some in E; [|exact Hs]. split; [discriminate|]. intros H. exfalso. exact (H v E).
    - split; [|reflexivity]. intros _ v Hin. apply lookup_Some in Hin; [|exact Hs]. congruence.
  Qed.
End Lookup.

(* the current std version (size/base loop) *)
Theorem binary_search_Some l k v :
  sorted_by_key l -> (binary_search l k = Some v <-> In (k, v) l).
Proof. apply (lookup_Some binary_search_by_key binary_search_by_key_sound). Qed.

Theorem binary_search_None l k :
  sorted_by_key l -> (binary_search l k = None <-> forall v, ~ In (k, v) l).
Proof. apply (lookup_None binary_search_by_key binary_search_by_key_sound). Qed.

(* Ok(i) is the position of the key *)
Theorem binary_search_by_key_Ok l k i :
  sorted_by_key l -> binary_search_by_key l k = BsOk i -> exists v, nth_error l i = Some (k, v).
Proof. intros Hs H. pose proof (binary_search_by_key_sound l k Hs) as S. rewrite H in S. exact S. Qed.

(* the older std version (left/right loop) *)
Theorem binary_search_lr_Some l k v :
  sorted_by_key l -> (binary_search_lr l k = Some v <-> In (k, v) l).
Proof. apply (lookup_Some binary_search_by_key_lr binary_search_by_key_lr_sound). Qed.

Theorem binary_search_lr_None l k :
  sorted_by_key l -> (binary_search_lr l k = None <-> forall v, ~ In (k, v) l).
Proof. apply (lookup_None binary_search_by_key_lr binary_search_by_key_lr_sound). Qed.

Corollary binary_search_lr_eq l k :
  sorted_by_key l -> binary_search_lr l k = binary_search l k.
Proof.
  intros Hs. destruct (binary_search l k) as [v|] eqn:E.
  - apply binary_search_lr_Some; [exact Hs|]. apply (binary_search_Some l k v Hs), E.
  - apply binary_search_lr_None; [exact Hs|]. apply (binary_search_None l k Hs), E.
Qed.

(* ================================================================== *)
(* 5. sorting                                                          *)
(* ================================================================== *)

Lemma insert_by_key_perm x l : Permutation (x :: l) (insert_by_key x l).
Proof.
  induction l as [|y r IH]; cbn [insert_by_key]; [apply Permutation_refl|].
  destruct (bytes_cmp (fst x) (fst y)); try apply Permutation_refl.
  eapply Permutation_trans; [apply perm_swap|]. apply perm_skip, IH.
Qed.

Lemma sort_by_key_perm l : Permutation l (sort_by_key l).
Proof.
  induction l as [|x l IH]; cbn [sort_by_key fold_right]; [constructor|].
  eapply Permutation_trans; [apply perm_skip, IH|]. apply insert_by_key_perm.
Qed.

Lemma insert_by_key_hd y x l :
  key_lt y x -> HdRel key_lt y l -> HdRel key_lt y (insert_by_key x l).
Proof.
  intros Hyx Hl. destruct l as [|z r]; cbn [insert_by_key]; [constructor; exact Hyx|].
  inversion Hl; subst. destruct (bytes_cmp (fst x) (fst z)); constructor; assumption.
Qed.

Lemma insert_by_key_sorted x l :
  sorted_by_key l -> ~ In (fst x) (map fst l) -> sorted_by_key (insert_by_key x l).
Proof.
  unfold sorted_by_key. induction l as [|y r IH]; intros Hs Hnot; cbn [insert_by_key].
  - constructor; constructor.
  - destruct (bytes_cmp (fst x) (fst y)) eqn:E.
    + exfalso. apply Hnot. left. symmetry. apply bytes_cmp_eq, E.
    + constructor; [exact Hs|]. constructor. exact E.
    + inversion Hs as [|? ? Hr Hhd]; subst. constructor.
      * apply IH; [exact Hr|]. intros Hin. apply Hnot. right. exact Hin.
      * apply insert_by_key_hd; [|exact Hhd]. apply bytes_cmp_gt_lt, E.
Qed.

Theorem sort_by_key_sorted l : NoDup (map fst l) -> sorted_by_key (sort_by_key l).
Proof.
  induction l as [|x l IH]; intros Hnd; cbn [sort_by_key fold_right].
  - constructor.
  - cbn [map] in Hnd. inversion Hnd as [|? ? Hnot Hnd']; subst.
    apply insert_by_key_sorted; [apply IH, Hnd'|].
    intros Hin. apply Hnot.
    eapply Permutation_in; [|exact Hin].
    apply Permutation_map, Permutation_sym, sort_by_key_perm.
Qed.

Theorem sort_by_key_is_sort l : NoDup (map fst l) -> is_sort_of l (sort_by_key l).
Proof. intros H. split; [apply sort_by_key_perm | apply sort_by_key_sorted, H]. Qed.

(* a table can be sorted (strictly) exactly when its keys are distinct *)
Theorem is_sort_of_nodup l l' : is_sort_of l l' -> NoDup (map fst l).
Proof.
  intros [Hp Hs]. eapply Permutation_NoDup; [|apply sorted_keys_nodup, Hs].
  apply Permutation_map, Permutation_sym, Hp.
Qed.

Lemma sorted_perm_eq l1 : forall l2,
  StronglySorted key_lt l1 -> StronglySorted key_lt l2 -> Permutation l1 l2 -> l1 = l2.
Proof.
  induction l1 as [|a1 l1 IH]; intros l2 H1 H2 Hp.
  - apply Permutation_nil in Hp. subst. reflexivity.
  - destruct l2 as [|a2 l2]; [apply Permutation_sym, Permutation_nil in Hp; discriminate|].
    inversion H1 as [|? ? Hs1 Hall1]; subst. inversion H2 as [|? ? Hs2 Hall2]; subst.
    rewrite Forall_forall in Hall1, Hall2.
    assert (Heq : a1 = a2).
    { assert (Hin1 : In a1 (a2 :: l2)) by (eapply Permutation_in; [exact Hp | left; reflexivity]).
      assert (Hin2 : In a2 (a1 :: l1))
        by (eapply Permutation_in; [apply Permutation_sym, Hp | left; reflexivity]).
      destruct Hin1 as [->|Hin1]; [reflexivity|]. destruct Hin2 as [->|Hin2]; [reflexivity|].
      exfalso. exact (bytes_lt_asym _ _ (Hall1 _ Hin2) (Hall2 _ Hin1)). }
    subst a2. f_equal. apply IH; [assumption | assumption |].
    eapply Permutation_cons_inv, Hp.
Qed.

(* sort_unstable_by on distinct keys has exactly one possible result *)
Theorem is_sort_of_functional l l1 l2 : is_sort_of l l1 -> is_sort_of l l2 -> l1 = l2.
Proof.
  intros [Hp1 Hs1] [Hp2 Hs2]. apply sorted_perm_eq; [apply sorted_strongly, Hs1 | apply sorted_strongly, Hs2 |].
  eapply Permutation_trans; [apply Permutation_sym, Hp1 | exact Hp2].
Qed.

Corollary is_sort_of_sort_by_key l l' : is_sort_of l l' -> l' = sort_by_key l.
Proof.
  intros H. eapply is_sort_of_functional; [exact H|].
  apply sort_by_key_is_sort. eapply is_sort_of_nodup, H.
Qed.

(* ================================================================== *)
(* 6. linear lookup; the connecting theorem                            *)
(* ================================================================== *)

Lemma find_assoc_Some_In l k v : find_assoc l k = Some v -> In (k, v) l.
Proof.
  unfold find_assoc. destruct (find (fun kv : entry => bytes_eqb (fst kv) k) l) as [[k' v']|] eqn:E; cbn [option_map snd]; [|discriminate].
  intros [= <-]. apply find_some in E. destruct E as [Hin He].
  cbn [fst] in He. apply bytes_eqb_eq in He. subst k'. exact Hin.
Qed.

Lemma find_assoc_None_not_In l k : find_assoc l k = None -> forall v, ~ In (k, v) l.
Proof.
  unfold find_assoc. destruct (find (fun kv : entry => bytes_eqb (fst kv) k) l) as [kv|] eqn:E; cbn [option_map]; [discriminate|].
  intros _ v Hin. pose proof (find_none _ _ E _ Hin) as H. cbn [fst] in H.
  assert (bytes_eqb k k = true) by (apply bytes_eqb_eq; reflexivity). congruence.
Qed.

Lemma find_assoc_Some l k v : NoDup (map fst l) -> (find_assoc l k = Some v <-> In (k, v) l).
Proof.
  intros Hnd. split; [apply find_assoc_Some_In|]. intros Hin.
  destruct (find_assoc l k) as [v0|] eqn:E.
  - f_equal. apply find_assoc_Some_In in E. eapply nodup_keys_functional; eassumption.
  - exfalso. exact (find_assoc_None_not_In _ _ E v Hin).
Qed.

Lemma find_assoc_None l k : find_assoc l k = None <-> forall v, ~ In (k, v) l.
Proof.
  split; [apply find_assoc_None_not_In|]. intros H.
  destruct (find_assoc l k) as [v|] eqn:E; [|reflexivity].
  exfalso. exact (H v (find_assoc_Some_In _ _ _ E)).
Qed.

(* The connecting theorem: whatever sort_unstable_by returns, binary search in it is the linear
   lookup in the unsorted table.  (NoDup (map fst l) follows from is_sort_of l l'; see
   is_sort_of_nodup.  It is kept out of this statement and restored in the corollary.) *)
Theorem binary_search_sorted_is_find_assoc' l l' k :
  is_sort_of l l' -> binary_search l' k = find_assoc l k.
Proof.
  intros [Hp Hs]. destruct (find_assoc l k) as [v|] eqn:E.
  - apply binary_search_Some; [exact Hs|].
    eapply Permutation_in; [exact Hp|]. apply find_assoc_Some_In, E.
  - apply binary_search_None; [exact Hs|]. intros v Hin.
    apply (find_assoc_None_not_In _ _ E v). eapply Permutation_in; [apply Permutation_sym, Hp | exact Hin].
Qed.

Theorem binary_search_sorted_is_find_assoc l l' k :
  NoDup (map fst l) -> is_sort_of l l' -> binary_search l' k = find_assoc l k.
Proof. intros _. apply binary_search_sorted_is_find_assoc'. Qed.

(* the hypothesis is satisfiable exactly under NoDup: the executable sort is a witness *)
Corollary binary_search_sort_by_key l k :
  NoDup (map fst l) -> binary_search (sort_by_key l) k = find_assoc l k.
Proof. intros H. apply binary_search_sorted_is_find_assoc'. apply sort_by_key_is_sort, H. Qed.

Corollary binary_search_lr_sorted_is_find_assoc l l' k :
  NoDup (map fst l) -> is_sort_of l l' -> binary_search_lr l' k = find_assoc l k.
Proof.
  intros _ H. rewrite binary_search_lr_eq; [|apply H]. apply binary_search_sorted_is_find_assoc', H.
Qed.

(* ================================================================== *)
(* 7. the router                                                       *)
(* ================================================================== *)

Lemma find_literal_find_assoc b path : find_literal b path = find_assoc (literals b) path.
Proof. unfold find_literal, find_assoc. destruct (find (fun kv => bytes_eqb (fst kv) path) (literals b)); reflexivity. Qed.

Lemma nodup_map_filter {A B} (f : A -> B) (p : A -> bool) l :
  NoDup (map f l) -> NoDup (map f (filter p l)).
Proof.
  induction l as [|x l IH]; intros H; cbn [filter map] in *; [constructor|].
  inversion H as [|? ? Hnot Hnd]; subst. destruct (p x); cbn [map]; [|apply IH, Hnd].
  constructor; [|apply IH, Hnd]. intros Hin. apply Hnot.
  apply in_map_iff in Hin. destruct Hin as (y & Hy & Hin). apply filter_In in Hin.
  apply in_map_iff. exists y. tauto.
Qed.

(* MethodBucket::add_route keeps literal keys distinct *)
Theorem add_route_literals_unique b path h :
  literals_unique b -> literals_unique (add_route b path h).
Proof.
  unfold literals_unique, add_route. intros H.
  destruct (parse_route path) as [norm entry].
  destruct (forallb is_lit (segs entry)); cbn [literals]; [|exact H].
  rewrite map_app. cbn [map fst].
  eapply Permutation_NoDup; [apply Permutation_cons_append|].
  constructor; [|apply nodup_map_filter, H].
  intros Hin. apply in_map_iff in Hin. destruct Hin as ([k v] & Hk & Hin).
  cbn [fst] in Hk. subst k. apply filter_In in Hin. destruct Hin as [_ Hneq].
  cbn [fst] in Hneq. assert (bytes_eqb norm norm = true) by (apply bytes_eqb_eq; reflexivity).
  destruct (bytes_eqb norm norm); discriminate.
Qed.

Theorem reachable_literals_unique b : reachable_bucket b -> literals_unique b.
Proof.
  induction 1 as [|b path h _ IH]; [constructor|]. apply add_route_literals_unique, IH.
Qed.

(* every bucket of a built router is reachable *)
Lemma bucket_of_reachable t m : reachable_bucket (bucket_of t m).
Proof.
  unfold bucket_of. generalize empty_bucket, reach_empty.
  induction t as [|[[m' path] h] t IH]; intros b Hb; cbn [fold_left]; [exact Hb|].
  apply IH. destruct (meth_eqb m' m); [constructor; exact Hb | exact Hb].
Qed.

(* The router instance: for a reachable bucket, binary search in ANY sort of its literal table is
   Model/Router.v's find_literal. *)
Theorem find_literal_is_binary_search b l' path :
  reachable_bucket b -> is_sort_of (literals b) l' ->
  binary_search l' path = find_literal b path.
Proof.
  intros Hr Hs. rewrite find_literal_find_assoc.
  apply binary_search_sorted_is_find_assoc; [apply reachable_literals_unique, Hr | exact Hs].
Qed.

(* ... and such a sort exists: finalize produces it *)
Theorem finalize_is_sort b : reachable_bucket b -> is_sort_of (literals b) (literals (finalize b)).
Proof. intros Hr. apply sort_by_key_is_sort, reachable_literals_unique, Hr. Qed.

Theorem find_literal_bs_finalize b path :
  reachable_bucket b -> find_literal_bs (finalize b) path = find_literal b path.
Proof.
  intros Hr. unfold find_literal_bs. apply find_literal_is_binary_search; [exact Hr|].
  apply finalize_is_sort, Hr.
Qed.

Corollary find_literal_bs_bucket_of t m path :
  find_literal_bs (finalize (bucket_of t m)) path = find_literal (bucket_of t m) path.
Proof. apply find_literal_bs_finalize, bucket_of_reachable. Qed.

(* Router::match_route with the real literal fast path = the model's match_route *)
Theorem match_route_bs_eq t m uri : match_route_bs t m uri = match_route t m uri.
Proof.
  unfold match_route_bs, match_route. rewrite find_literal_bs_bucket_of. reflexivity.
Qed.

(* ================================================================== *)
(* 8. examples                                                         *)
(* ================================================================== *)

(* the order: prefix, case, unsigned bytes *)
Example cmp_prefix : bytes_cmp (bs "api") (bs "api/v1") = Lt.
Proof. vm_compute. reflexivity. Qed.
Example cmp_case : bytes_cmp (bs "Zebra") (bs "apple") = Lt.
Proof. vm_compute. reflexivity. Qed.
Example cmp_eq : bytes_cmp (bs "users") (bs "users") = Eq.
Proof. vm_compute. reflexivity. Qed.
Example cmp_gt : bytes_cmp (bs "users") (bs "about") = Gt.
Proof. vm_compute. reflexivity. Qed.
(* 0xC3 (first byte of a two-byte UTF-8 sequence) sorts after every ASCII byte: u8, not i8 *)
Example cmp_unsigned : bytes_cmp [x7a] [xc3; xa9] = Lt.
Proof. vm_compute. reflexivity. Qed.
Example cmp_slash : bytes_cmp (bs "a/b") (bs "a-b") = Gt.
Proof. vm_compute. reflexivity. Qed.

(* six literal routes for GET registered out of order, "/about" registered twice (the second
   handler wins), one pattern route and one route for another method in between *)
Definition ex_table : table :=
  [ (Std 0, bs "/users", 1%N);
    (Std 0, bs "/about", 2%N);
    (Std 0, bs "/zeta/last", 3%N);
    (Std 1, bs "/submit", 10%N);
    (Std 0, bs "/", 4%N);
    (Std 0, bs "/users/:id", 20%N);
    (Std 0, bs "/api/v1", 5%N);
    (Std 0, bs "/about", 6%N);
    (Std 0, bs "/api", 7%N) ].

Definition ex_bucket : bucket := bucket_of ex_table (Std 0).

(* registration order, "about" moved to the position of its re-registration *)
Example ex_literals :
  literals ex_bucket =
  [ (bs "users", 1%N); (bs "zeta/last", 3%N); (bs "", 4%N); (bs "api/v1", 5%N);
    (bs "about", 6%N); (bs "api", 7%N) ].
Proof. vm_compute. reflexivity. Qed.

Example ex_sorted :
  literals (finalize ex_bucket) =
  [ (bs "", 4%N); (bs "about", 6%N); (bs "api", 7%N); (bs "api/v1", 5%N);
    (bs "users", 1%N); (bs "zeta/last", 3%N) ].
Proof. vm_compute. reflexivity. Qed.

(* hits: first, middle, last, the re-registered key *)
Example ex_hit_root : find_literal_bs (finalize ex_bucket) (bs "") = Some 4%N.
Proof. vm_compute. reflexivity. Qed.
Example ex_hit_about : find_literal_bs (finalize ex_bucket) (bs "about") = Some 6%N.
Proof. vm_compute. reflexivity. Qed.
Example ex_hit_api : find_literal_bs (finalize ex_bucket) (bs "api") = Some 7%N.
Proof. vm_compute. reflexivity. Qed.
Example ex_hit_api_v1 : find_literal_bs (finalize ex_bucket) (bs "api/v1") = Some 5%N.
Proof. vm_compute. reflexivity. Qed.
Example ex_hit_users : find_literal_bs (finalize ex_bucket) (bs "users") = Some 1%N.
Proof. vm_compute. reflexivity. Qed.
Example ex_hit_zeta : find_literal_bs (finalize ex_bucket) (bs "zeta/last") = Some 3%N.
Proof. vm_compute. reflexivity. Qed.

(* the positions binary_search_by_key reports: Ok(index) / Err(insertion point) *)
Example ex_ok_index : binary_search_by_key (literals (finalize ex_bucket)) (bs "api/v1") = BsOk 3.
Proof. vm_compute. reflexivity. Qed.
Example ex_err_index : binary_search_by_key (literals (finalize ex_bucket)) (bs "api/v2") = BsErr 4.
Proof. vm_compute. reflexivity. Qed.
Example ex_ok_front : binary_search_by_key (literals (finalize ex_bucket)) [] = BsOk 0.
Proof. vm_compute. reflexivity. Qed.
Example ex_err_back : binary_search_by_key (literals (finalize ex_bucket)) (bs "zz") = BsErr 6.
Proof. vm_compute. reflexivity. Qed.
Example ex_empty_table : binary_search_by_key [] (bs "x") = BsErr 0.
Proof. vm_compute. reflexivity. Qed.

(* misses: before the first, between, prefix of a key, extension of a key, after the last,
   a key of another method's bucket *)
Example ex_miss_before : find_literal_bs (finalize ex_bucket) (bs "Zebra") = None.
Proof. vm_compute. reflexivity. Qed.
Example ex_miss_between : find_literal_bs (finalize ex_bucket) (bs "api/v2") = None.
Proof. vm_compute. reflexivity. Qed.
Example ex_miss_prefix : find_literal_bs (finalize ex_bucket) (bs "user") = None.
Proof. vm_compute. reflexivity. Qed.
Example ex_miss_extension : find_literal_bs (finalize ex_bucket) (bs "users/") = None.
Proof. vm_compute. reflexivity. Qed.
Example ex_miss_after : find_literal_bs (finalize ex_bucket) (bs "zz") = None.
Proof. vm_compute. reflexivity. Qed.
Example ex_miss_other_method : find_literal_bs (finalize ex_bucket) (bs "submit") = None.
Proof. vm_compute. reflexivity. Qed.

(* the older std loop gives the same answers *)
Example ex_lr_hit : binary_search_lr (literals (finalize ex_bucket)) (bs "about") = Some 6%N.
Proof. vm_compute. reflexivity. Qed.
Example ex_lr_miss : binary_search_lr (literals (finalize ex_bucket)) (bs "abouu") = None.
Proof. vm_compute. reflexivity. Qed.

(* without finalize the search goes wrong: the unsorted table has "users" but the search misses it *)
Example ex_unsorted_misses : binary_search (literals ex_bucket) (bs "users") = None.
Proof. vm_compute. reflexivity. Qed.
Example ex_unsorted_model_finds : find_literal ex_bucket (bs "users") = Some 1%N.
Proof. vm_compute. reflexivity. Qed.

(* through match_route: a literal hit, a pattern hit, the fallback *)
Example ex_route_literal : match_route_bs ex_table (Std 0) (bs "/about") = Found 6%N [].
Proof. vm_compute. reflexivity. Qed.
Example ex_route_pattern :
  match_route_bs ex_table (Std 0) (bs "/users/42") = Found 20%N [(bs "id", bs "42")].
Proof. vm_compute. reflexivity. Qed.
Example ex_route_fallback : match_route_bs ex_table (Std 0) (bs "/nope") = Fallback.
Proof. vm_compute. reflexivity. Qed.
Example ex_route_other_method : match_route_bs ex_table (Std 1) (bs "/submit") = Found 10%N [].
Proof. vm_compute. reflexivity. Qed.

Print Assumptions bytes_lt_irrefl.
Print Assumptions bytes_lt_trans.
Print Assumptions bytes_lt_trichotomy.
Print Assumptions bytes_lt_trichotomy_eqb.
Print Assumptions bytes_cmp_eqb.
Print Assumptions bytes_lt_lex.
Print Assumptions binary_search_by_key_total.
Print Assumptions binary_search_by_key_lr_total.
Print Assumptions binary_search_Some.
Print Assumptions binary_search_None.
Print Assumptions binary_search_lr_Some.
Print Assumptions binary_search_lr_None.
Print Assumptions sort_by_key_is_sort.
Print Assumptions is_sort_of_functional.
Print Assumptions binary_search_sorted_is_find_assoc.
Print Assumptions binary_search_sorted_is_find_assoc'.
Print Assumptions add_route_literals_unique.
Print Assumptions reachable_literals_unique.
Print Assumptions find_literal_is_binary_search.
Print Assumptions find_literal_bs_finalize.
Print Assumptions match_route_bs_eq.
