(* Proofs for Model/Modes.v: the epoll dispatch loop (one handle_one_request per readiness event, each
   with a fresh ResponseHandle) computes exactly what the blocking request loop (one sticky handle)
   computes; hence the three serve modes agree, and the lifecycle hooks fire as documented.
   Closes Properties/C16.v and Properties/C17.v. *)
From Coq Require Import Lia.
From KV Require Import Lib.Bytes Model.Headers Model.Parser Model.Body Model.Server Model.Modes.

(* ------------------------------------------------------------------ handle_one_request facts *)

(* with a fresh handle (ka = true), Ok(true) is only returned when no response carried `close`:
   so the sticky flag of the blocking loop never differs from the fresh flag of the epoll loop *)
Lemma keep_no_close : forall a N sg,
  o_keep (handle_one_request a N true sg) = true ->
  existsb rs_close (o_resps (handle_one_request a N true sg)) = false.
Proof.
  intros a N sg. unfold handle_one_request.
  destruct (read_request _ _ _ _) as [[buf r | | | ] sg']; cbn; try discriminate.
  destruct (te_present (q_hdrs r) && negb (te_final_chunked (q_hdrs r))); cbn; try discriminate.
  destruct (hook_of a r); cbn; try discriminate.
  - destruct (run_handler _ _ _) as [[[resps ok] rest] loc]; cbn.
    destruct ok, (connection_close (q_hdrs r)), (existsb rs_close resps); cbn; auto; discriminate.
  - reflexivity.
Qed.

(* a propagated handler error is never reported as "waiting for input" *)
Lemma err_no_eof : forall a N ka sg,
  o_ok (handle_one_request a N ka sg) = false -> o_eof (handle_one_request a N ka sg) = false.
Proof.
  intros a N ka sg. unfold handle_one_request.
  destruct (read_request _ _ _ _) as [[buf r | | | ] sg']; cbn; try discriminate.
  destruct (te_present (q_hdrs r) && negb (te_final_chunked (q_hdrs r))); cbn; try discriminate.
  destruct (hook_of a r); cbn; try discriminate.
  destruct (run_handler _ _ _) as [[[resps ok] rest] loc]; cbn. reflexivity.
Qed.

(* ------------------------------------------------------------------ the two loops *)
Lemma loops_agree : forall fuel a N sg acc n,
  epoll_dispatches fuel a N sg acc n =
  (c_resps (handle_connection fuel a N true sg acc n),
   c_requests (handle_connection fuel a N true sg acc n),
   c_ok (handle_connection fuel a N true sg acc n),
   c_waiting (handle_connection fuel a N true sg acc n)).
Proof.
  induction fuel as [|fuel IH]; intros a N sg acc n.
  - reflexivity.
  - cbn [epoll_dispatches handle_connection].
    pose proof (keep_no_close a N sg) as Hk.
    pose proof (err_no_eof a N true sg) as He.
    set (o := handle_one_request a N true sg) in *.
    destruct (o_ok o) eqn:Eok; cbn [negb andb].
    + destruct (o_keep o) eqn:Ekeep.
      * rewrite (Hk eq_refl). cbn [negb andb]. apply IH.
      * reflexivity.
    + cbn [c_resps c_requests c_ok c_waiting]. rewrite (He eq_refl). reflexivity.
Qed.

Lemma epoll_equals_blocking : forall a N sg,
  epoll_connection a N sg = blocking_connection a N sg.
Proof.
  intros a N sg. unfold epoll_connection, blocking_connection, serve_conn.
  rewrite loops_agree. reflexivity.
Qed.

(* ------------------------------------------------------------------ whole histories *)
Lemma one_connection_blocking : forall m a N sg,
  one_connection m a N sg = blocking_connection a N sg.
Proof. intros [| |] a N sg; cbn [one_connection]; auto using epoll_equals_blocking. Qed.

Lemma serve_mode_any : forall m m' a N cs, serve_mode m a N cs = serve_mode m' a N cs.
Proof.
  intros m m' a N cs. induction cs as [|c rest IH]; cbn [serve_mode]; [reflexivity|].
  rewrite IH, (one_connection_blocking m), (one_connection_blocking m'). reflexivity.
Qed.

Lemma modes_equal : forall a N cs,
  serve_mode MPool a N cs = serve_mode MThreaded a N cs /\
  serve_mode MThreaded a N cs = serve_mode MEpoll a N cs.
Proof. intros; split; apply serve_mode_any. Qed.

(* ------------------------------------------------------------------ hooks *)
Lemma proceeded_hooks : forall m a N sg,
  let o := one_connection m a N sg in
  exists k ok, co_hooks o = HSetup :: repeat HPreRouting k ++ [HTeardown ok] /\
               k = c_requests (serve_conn a N sg) /\ ok = c_ok (serve_conn a N sg).
Proof.
  intros m a N sg o. subst o. rewrite one_connection_blocking.
  eexists; eexists; split; [reflexivity|split; reflexivity].
Qed.

(* same bodies as the definitions Properties/C16.v makes after importing this file *)
Definition count_ev (p : hook_event -> bool) (l : list hook_event) : nat := length (filter p l).
Definition is_setup e := match e with HSetup => true | _ => false end.
Definition is_pre e := match e with HPreRouting => true | _ => false end.
Definition is_teardown e := match e with HTeardown _ => true | _ => false end.

Lemma filter_repeat_pre : forall p k, p HPreRouting = false -> filter p (repeat HPreRouting k) = [].
Proof. intros p k H. induction k; cbn [repeat filter]; [reflexivity|]. rewrite H. exact IHk. Qed.

Lemma proceeded_counts : forall m a N sg,
  count_ev is_setup (co_hooks (one_connection m a N sg)) = 1 /\
  count_ev is_teardown (co_hooks (one_connection m a N sg)) <= 1.
Proof.
  intros m a N sg. destruct (proceeded_hooks m a N sg) as (k & ok & H & _). rewrite H.
  unfold count_ev. cbn [filter is_setup is_teardown]. rewrite !filter_app, !filter_repeat_pre by reflexivity.
  cbn. split; [reflexivity|lia].
Qed.

Lemma history_hooks : forall m a N cs outs stopped, serve_mode m a N cs = (outs, stopped) ->
  length outs = length (before_stop cs) /\
  (stopped = true <-> existsb (fun c => match ci_decision c with SStop => true | _ => false end) cs = true) /\
  Forall (fun o => count_ev is_setup (co_hooks o) = 1 /\ count_ev is_teardown (co_hooks o) <= 1) outs /\
  (forall i c, nth_error (before_stop cs) i = Some c ->
     match ci_decision c with
     | SDrop => nth_error outs i = Some {| co_resps := []; co_hooks := [HSetup]; co_waiting := false |}
     | _ => nth_error outs i = Some (one_connection m a N (ci_segs c))
     end).
Proof.
  intros m a N cs. induction cs as [|c0 rest IH]; intros outs stopped H.
  - cbn in H. inversion H; subst. cbn. repeat split; try discriminate; auto.
    intros [|i] c Hn; discriminate.
  - cbn [serve_mode before_stop existsb] in *.
    destruct (ci_decision c0) eqn:Ed.
    + destruct (serve_mode m a N rest) as [outs' st'] eqn:Es. inversion H; subst; clear H.
      destruct (IH _ _ eq_refl) as (Hl & Hs & Hf & Hn).
      cbn [length orb]. repeat split.
      * now rewrite Hl.
      * apply Hs.
      * apply Hs.
      * constructor; [apply proceeded_counts|exact Hf].
      * intros [|i] c Hc; cbn [nth_error] in *.
        -- inversion Hc; subst. rewrite Ed. reflexivity.
        -- apply Hn, Hc.
    + destruct (serve_mode m a N rest) as [outs' st'] eqn:Es. inversion H; subst; clear H.
      destruct (IH _ _ eq_refl) as (Hl & Hs & Hf & Hn).
      cbn [length orb]. repeat split.
      * now rewrite Hl.
      * apply Hs.
      * apply Hs.
      * constructor; [cbn; split; [reflexivity|lia]|exact Hf].
      * intros [|i] c Hc; cbn [nth_error] in *.
        -- inversion Hc; subst. rewrite Ed. reflexivity.
        -- apply Hn, Hc.
    + inversion H; subst; clear H. cbn [length orb]. repeat split; auto.
      intros [|i] c Hc; discriminate.
Qed.
