(* C04 — soundness of the request-head parser against the strict recogniser [strict_head], and
   exactness of the recogniser itself (it consumes precisely the strict shape). *)
From KV Require Import Lib.Bytes Lib.Swar Model.Headers Model.Parser Spec.HttpGrammar.
From KV Require Proofs.Headers Proofs.SwarSpec.

(* ------------------------------------------------------------------ generic list / byte facts *)
Lemma ps_beqb_refl a : Byte.eqb a a = true.
Proof. apply byte_eqb_eq. reflexivity. Qed.

Lemma ps_beqb_sym a b : Byte.eqb a b = Byte.eqb b a.
Proof.
  destruct (Byte.eqb a b) eqn:E; symmetry.
  - apply byte_eqb_eq in E. subst. apply ps_beqb_refl.
  - destruct (Byte.eqb b a) eqn:E2; [|reflexivity].
    apply byte_eqb_eq in E2. subst. rewrite ps_beqb_refl in E. discriminate E.
Qed.

Lemma ps_forallb_impl (p q : byte -> bool) (l : bytes) :
  (forall b, p b = true -> q b = true) -> forallb p l = true -> forallb q l = true.
Proof.
  intros Hpq. induction l as [|b r IH]; cbn [forallb]; intros H; [reflexivity|].
  apply andb_true_iff in H. destruct H as [H1 H2]. rewrite (Hpq _ H1), (IH H2). reflexivity.
Qed.

Lemma ps_forallb_app (p : byte -> bool) (a b : bytes) :
  forallb p a = true -> forallb p b = true -> forallb p (a ++ b) = true.
Proof. intros Ha Hb. rewrite forallb_app, Ha, Hb. reflexivity. Qed.

Lemma ps_firstn_add {A} (a b : nat) : forall (l : list A), firstn (a + b) l = firstn a l ++ firstn b (skipn a l).
Proof.
  induction a as [|a IH]; intros l; [reflexivity|].
  destruct l as [|x l]; cbn [Nat.add firstn skipn app].
  - destruct b; reflexivity.
  - rewrite IH. reflexivity.
Qed.

Lemma ps_firstn_S_nth {A} : forall (i : nat) (l : list A) (b : A), nth_error l i = Some b -> firstn (S i) l = firstn i l ++ [b].
Proof.
  induction i as [|i IH]; intros l b H; destruct l as [|x l]; cbn [nth_error] in H; try discriminate H.
  - inversion H; subst. reflexivity.
  - cbn [firstn app]. f_equal. change (firstn (S i) l = firstn i l ++ [b]). apply IH. exact H.
Qed.

Lemma ps_strip_prefix_inv : forall p l r, strip_prefix p l = Some r -> l = p ++ r.
Proof.
  induction p as [|x p IH]; intros l r H; cbn [strip_prefix] in H.
  - inversion H; subst. reflexivity.
  - destruct l as [|y l]; [discriminate H|]. destruct (Byte.eqb x y) eqn:E; [|discriminate H].
    apply byte_eqb_eq in E. subst y. cbn [app]. f_equal. apply IH. exact H.
Qed.

Lemma ps_strip_prefix_app : forall p r, strip_prefix p (p ++ r) = Some r.
Proof.
  induction p as [|x p IH]; intros r; cbn [strip_prefix app]; [reflexivity|].
  rewrite ps_beqb_refl. apply IH.
Qed.

Lemma ps_split_at_inv c : forall l x y, split_at c l = Some (x, y) -> l = x ++ c :: y.
Proof.
  induction l as [|b r IH]; intros x y H; cbn [split_at] in H; [discriminate H|].
  destruct (Byte.eqb b c) eqn:E.
  - apply byte_eqb_eq in E. inversion H; subst. reflexivity.
  - destruct (split_at c r) as [[x' y']|] eqn:E2; [|discriminate H].
    inversion H; subst. rewrite (IH _ _ eq_refl). reflexivity.
Qed.

Lemma ps_find_index_split c : forall l i, find_index (Byte.eqb c) l = Some i ->
  split_at c l = Some (firstn i l, skipn (S i) l).
Proof.
  induction l as [|b r IH]; intros i H; cbn [find_index] in H; [discriminate H|].
  cbn [split_at]. rewrite (ps_beqb_sym b c). destruct (Byte.eqb c b) eqn:E.
  - inversion H; subst. reflexivity.
  - destruct (find_index (Byte.eqb c) r) as [j|] eqn:E2; cbn [option_map] in H; [|discriminate H].
    inversion H; subst. rewrite (IH j eq_refl). reflexivity.
Qed.

Lemma ps_find_index_nonempty c : forall l i, find_index (Byte.eqb c) l = Some i -> i <> 0 ->
  nonempty (firstn i l) = true.
Proof.
  intros l i H Hi. destruct l as [|b r]; [discriminate H|]. destruct i as [|i]; [congruence|]. reflexivity.
Qed.

Lemma ps_nonempty_length (l : bytes) : Nat.eqb (length l) 0 = false -> nonempty l = true.
Proof. destruct l; [discriminate|reflexivity]. Qed.

Lemma ps_str_unchecked_inv l s : str_unchecked l = Ok s -> s = l.
Proof. unfold str_unchecked. destruct (forallb is_ascii l); intros H; [|discriminate H]. inversion H. reflexivity. Qed.

(* ------------------------------------------------------------------ byte classes *)
Lemma ps_alpha_tchar b : is_alpha b = true -> is_tchar b = true.
Proof. unfold is_tchar. intros H. rewrite H. reflexivity. Qed.

Lemma ps_field_byte_tchar b : is_valid_header_field_byte b = true -> is_tchar b = true.
Proof. destruct b; vm_compute; intros H; (reflexivity || discriminate H). Qed.

Lemma ps_uri_byte_vchar b : is_valid_uri_byte b = true -> is_vchar b = true.
Proof. destruct b; vm_compute; intros H; (reflexivity || discriminate H). Qed.

Lemma ps_vchar_not_sp b : is_vchar b = true -> Byte.eqb b x20 = false.
Proof.
  intros H. destruct (Byte.eqb b x20) eqn:E; [|reflexivity].
  apply byte_eqb_eq in E. subst b. vm_compute in H. discriminate H.
Qed.

Lemma ps_tchar_not_sp b : is_tchar b = true -> Byte.eqb b x20 = false.
Proof.
  intros H. destruct (Byte.eqb b x20) eqn:E; [|reflexivity].
  apply byte_eqb_eq in E. subst b. vm_compute in H. discriminate H.
Qed.

(* a token followed by the separator is split exactly there *)
Lemma ps_split_at_nosep (p : byte -> bool) c :
  (forall b, p b = true -> Byte.eqb b c = false) ->
  forall x y, forallb p x = true -> split_at c (x ++ c :: y) = Some (x, y).
Proof.
  intros Hp. induction x as [|b x IH]; intros y H; cbn [app split_at].
  - rewrite ps_beqb_refl. reflexivity.
  - cbn [forallb] in H. apply andb_true_iff in H. destruct H as [H1 H2].
    rewrite (Hp _ H1), (IH _ H2). reflexivity.
Qed.

(* ------------------------------------------------------------------ parse_method *)
Lemma parse_method_sound s m r1 : parse_method s = Ok (m, r1) ->
  split_at x20 s = Some (method_str m, r1) /\ nonempty (method_str m) && forallb is_tchar (method_str m) = true.
Proof.
  unfold parse_method. intros H.
  destruct (strip_prefix (bs "GET ") s) as [rest|] eqn:E1.
  { inversion H; subst. apply ps_strip_prefix_inv in E1. subst s. split; reflexivity. }
  destruct (strip_prefix (bs "POST ") s) as [rest|] eqn:E2.
  { inversion H; subst. apply ps_strip_prefix_inv in E2. subst s. split; reflexivity. }
  destruct (find_index (Byte.eqb x20) s) as [i|] eqn:Ei; [|discriminate H].
  pose proof (ps_find_index_split _ _ _ Ei) as Hs. cbv zeta in H.
  destruct (bytes_eqb (firstn i s) (bs "HEAD")) eqn:B1.
  { apply KV.Proofs.Headers.bytes_eqb_iff in B1. inversion H; subst. rewrite Hs, B1. split; reflexivity. }
  destruct (bytes_eqb (firstn i s) (bs "PUT")) eqn:B2.
  { apply KV.Proofs.Headers.bytes_eqb_iff in B2. inversion H; subst. rewrite Hs, B2. split; reflexivity. }
  destruct (bytes_eqb (firstn i s) (bs "PATCH")) eqn:B3.
  { apply KV.Proofs.Headers.bytes_eqb_iff in B3. inversion H; subst. rewrite Hs, B3. split; reflexivity. }
  destruct (bytes_eqb (firstn i s) (bs "DELETE")) eqn:B4.
  { apply KV.Proofs.Headers.bytes_eqb_iff in B4. inversion H; subst. rewrite Hs, B4. split; reflexivity. }
  destruct (bytes_eqb (firstn i s) (bs "OPTIONS")) eqn:B5.
  { apply KV.Proofs.Headers.bytes_eqb_iff in B5. inversion H; subst. rewrite Hs, B5. split; reflexivity. }
  destruct (bytes_eqb (firstn i s) (bs "TRACE")) eqn:B6.
  { apply KV.Proofs.Headers.bytes_eqb_iff in B6. inversion H; subst. rewrite Hs, B6. split; reflexivity. }
  destruct (Nat.eqb (length (firstn i s)) 0 || negb (forallb is_alpha (firstn i s))) eqn:Ec; [discriminate H|].
  apply orb_false_iff in Ec. destruct Ec as [Ec1 Ec2]. apply negb_false_iff in Ec2.
  destruct (str_unchecked (firstn i s)) as [s'| |] eqn:Eu; cbn [bind] in H; try discriminate H.
  apply ps_str_unchecked_inv in Eu. inversion H; subst. cbn [method_str]. split; [exact Hs|].
  rewrite (ps_nonempty_length _ Ec1). cbn [andb].
  apply (ps_forallb_impl is_alpha is_tchar); [exact ps_alpha_tchar | exact Ec2].
Qed.

(* ------------------------------------------------------------------ parse_version *)
Lemma parse_version_sound r2 v r3 : parse_version r2 = Ok (v, r3) ->
  exists d, strip_prefix (bs "HTTP/1.") r2 = Some (d :: r3) /\
            ((d = x31 /\ v = 1%N) \/ (d = x30 /\ v = 0%N)).
Proof.
  unfold parse_version. intros H.
  destruct (strip_prefix (bs "HTTP/1.") r2) as [rest|] eqn:E.
  - destruct rest as [|d r]; [discriminate H|].
    destruct d; try discriminate H; inversion H; subst; eexists; (split; [reflexivity|]); [right|left]; split; reflexivity.
  - destruct (is_prefix (firstn 7 r2) (bs "HTTP/1.")); discriminate H.
Qed.

(* ------------------------------------------------------------------ parse_uri *)
Lemma ps_uri_tail_ge : forall l n, n <= uri_tail l -> forallb is_vchar (firstn n l) = true.
Proof.
  induction l as [|b r IH]; intros n Hn; cbn [uri_tail] in Hn.
  - destruct n; reflexivity.
  - destruct n as [|n]; [reflexivity|]. cbn [firstn forallb].
    destruct (is_vchar b); [|lia]. cbn [andb]. apply IH. lia.
Qed.

Lemma ps_firstn_idem {A} : forall n (l : list A), firstn n (firstn n l) = firstn n l.
Proof. induction n as [|n IH]; intros l; [reflexivity|]. destruct l as [|x l]; [reflexivity|]. cbn [firstn]. rewrite IH. reflexivity. Qed.

(* a target of visible bytes followed by SP is split exactly there *)
Lemma ps_vchar_split : forall k buf, nth_error buf k = Some x20 -> forallb is_vchar (firstn k buf) = true ->
  split_at x20 buf = Some (firstn k buf, skipn (S k) buf).
Proof.
  induction k as [|k IH]; intros buf Hn Hv; destruct buf as [|b r]; cbn [nth_error] in Hn; try discriminate Hn.
  - inversion Hn; subst. reflexivity.
  - cbn [firstn forallb] in Hv. apply andb_true_iff in Hv. destruct Hv as [Hv1 Hv2].
    cbn [split_at]. rewrite (ps_vchar_not_sp _ Hv1).
    change (skipn (S (S k)) (b :: r)) with (skipn (S k) r). cbn [firstn].
    rewrite (IH r Hn Hv2). reflexivity.
Qed.

Lemma ps_step2_eq seen b r i : step2 seen (b :: r) i =
  if Byte.eqb b x3a then
    match strip_prefix [x2f; x2f] r with
    | Some r' => if seen then step2 seen r (i + 1) else step2 true r' (i + 3)
    | None => step2 seen r (i + 1)
    end
  else if Byte.eqb b x2f then S2Path i
  else if Byte.eqb b x20 || Byte.eqb b x3f then S2End i
  else if is_valid_uri_byte b then step2 seen r (i + 1) else S2Err.
Proof.
  destruct b; try reflexivity.
  destruct r as [|c r]; [reflexivity|]. destruct c; try reflexivity.
  destruct r as [|d r]; [reflexivity|]. destruct d; reflexivity.
Qed.

Definition scan_ok (l : bytes) (i0 : nat) (sc : scan2) : Prop :=
  match sc with
  | S2Err => True
  | S2Path i | S2End i => exists k, i = i0 + k /\ forallb is_vchar (firstn k l) = true
  end.

Lemma ps_scan_ok_here l i0 : scan_ok l i0 (S2Path i0) /\ scan_ok l i0 (S2End i0).
Proof. split; exists 0; (split; [lia|reflexivity]). Qed.

Lemma ps_scan_ok_cons b r i0 sc : is_vchar b = true -> scan_ok r (i0 + 1) sc -> scan_ok (b :: r) i0 sc.
Proof.
  intros Hb. destruct sc as [|i|i]; cbn [scan_ok]; [trivial| |];
    intros [k [Hk Hv]]; exists (S k); (split; [lia|]); cbn [firstn forallb]; rewrite Hb, Hv; reflexivity.
Qed.

Lemma ps_scan_ok_3 r' i0 sc : scan_ok r' (i0 + 3) sc -> scan_ok (x3a :: x2f :: x2f :: r') i0 sc.
Proof.
  destruct sc as [|i|i]; cbn [scan_ok]; [trivial| |];
    intros [k [Hk Hv]]; exists (S (S (S k))); (split; [lia|]); cbn [firstn forallb]; rewrite Hv; reflexivity.
Qed.

Lemma ps_step2_ok : forall n l seen i0, length l <= n -> scan_ok l i0 (step2 seen l i0).
Proof.
  induction n as [|n IH]; intros l seen i0 Hl.
  - destruct l as [|b r]; [|cbn [length] in Hl; lia]. apply ps_scan_ok_here.
  - destruct l as [|b r]; [apply ps_scan_ok_here|]. cbn [length] in Hl.
    rewrite ps_step2_eq.
    destruct (Byte.eqb b x3a) eqn:E1.
    { apply byte_eqb_eq in E1. subst b.
      destruct (strip_prefix [x2f; x2f] r) as [r'|] eqn:Es.
      - apply ps_strip_prefix_inv in Es. destruct seen.
        + apply ps_scan_ok_cons; [reflexivity|]. apply IH. lia.
        + subst r. cbn [app]. apply ps_scan_ok_3. apply IH. cbn [app length] in Hl. lia.
      - apply ps_scan_ok_cons; [reflexivity|]. apply IH. lia. }
    destruct (Byte.eqb b x2f); [apply ps_scan_ok_here|].
    destruct (Byte.eqb b x20 || Byte.eqb b x3f); [apply ps_scan_ok_here|].
    destruct (is_valid_uri_byte b) eqn:Ev; [|exact I].
    apply ps_scan_ok_cons; [apply ps_uri_byte_vchar; exact Ev|]. apply IH. lia.
Qed.

Lemma ps_finish_ok buf k ps pe u r : finish_uri buf k ps pe = Ok (u, r) ->
  nth_error buf k = Some x20 -> k <> 0 -> forallb is_vchar (firstn k buf) = true ->
  split_at x20 buf = Some (full u, r) /\ nonempty (full u) = true /\ forallb is_vchar (full u) = true.
Proof.
  unfold finish_uri. intros H Hn Hk Hv.
  destruct (str_unchecked (firstn k buf)) as [s| |] eqn:Eu; cbn [bind] in H; try discriminate H.
  apply ps_str_unchecked_inv in Eu. inversion H; subst. cbn [full].
  split; [apply ps_vchar_split; assumption|]. split; [|exact Hv].
  destruct k as [|k]; [congruence|]. destruct buf as [|b buf]; [discriminate Hn|]. reflexivity.
Qed.

(* the three-way test on the delimiter byte *)
Lemma ps_sp_match {A} (o : option byte) (a b c : res A) x :
  match o with Some x20 => a | Some _ => b | None => c end = Ok x ->
  b = Ok x \/ (o = Some x20 /\ a = Ok x) \/ (o = None /\ c = Ok x).
Proof.
  destruct o as [d|]; [|intros H; right; right; split; [reflexivity|exact H]].
  destruct d; intros H; try (left; exact H). right; left. split; [reflexivity|exact H].
Qed.

Lemma ps_qsp_match {A} (o : option byte) (q a b c : res A) x :
  match o with Some x3f => q | Some x20 => a | Some _ => b | None => c end = Ok x ->
  b = Ok x \/ (o = Some x20 /\ a = Ok x) \/ (o = Some x3f /\ q = Ok x) \/ (o = None /\ c = Ok x).
Proof.
  destruct o as [d|]; [|intros H; right; right; right; split; [reflexivity|exact H]].
  destruct d; intros H; try (left; exact H).
  - right; left. split; [reflexivity|exact H].
  - right; right; left. split; [reflexivity|exact H].
Qed.

Lemma parse_uri_sound r1 u r2 : parse_uri r1 = Ok (u, r2) ->
  split_at x20 r1 = Some (full u, r2) /\ nonempty (full u) = true /\ forallb is_vchar (full u) = true.
Proof.
  unfold parse_uri. intros H.
  destruct r1 as [|first rest] eqn:Ebuf; [discriminate H|]. rewrite <- Ebuf in H |- *.
  destruct (Byte.eqb first x2a) eqn:Ea.
  { (* asterisk-form *)
    apply byte_eqb_eq in Ea. subst first.
    apply ps_sp_match in H. destruct H as [H|[[Hn H]|[_ H]]]; try discriminate H.
    subst r1. destruct rest as [|c rest']; [discriminate Hn|]. cbn [nth_error] in Hn.
    inversion Hn; subst c. inversion H; subst. cbn [full]. repeat split. }
  assert (Hsc : scan_ok r1 0 (if Byte.eqb first x2f then S2Path 0 else step2 false r1 0)).
  { destruct (Byte.eqb first x2f); [apply ps_scan_ok_here|]. apply (ps_step2_ok (length r1)). lia. }
  remember (if Byte.eqb first x2f then S2Path 0 else step2 false r1 0) as sc eqn:Esc.
  destruct sc as [|ps|i]; [discriminate H| |].
  - (* a path starts at ps *)
    cbv zeta in H.
    rewrite ?KV.Proofs.SwarSpec.match_uri_vectored_spec, ?KV.Proofs.SwarSpec.match_path_vectored_spec in H.
    destruct Hsc as [k [Hk Hpre]]. cbn [Nat.add] in Hk. subst k.
    set (pt := path_tail (skipn ps r1)) in *.
    replace (ps + pt - ps) with pt in H by lia.
    destruct (Nat.ltb (ps + uri_tail (firstn pt (skipn ps r1))) (ps + pt)) eqn:Eb.
    { destruct (nth_error r1 (ps + uri_tail (firstn pt (skipn ps r1)))) as [c|]; [destruct (is_crlf_byte c)|]; discriminate H. }
    apply Nat.ltb_ge in Eb.
    assert (Hpath : forallb is_vchar (firstn pt (skipn ps r1)) = true).
    { rewrite <- ps_firstn_idem. apply ps_uri_tail_ge. lia. }
    assert (Hi : forallb is_vchar (firstn (ps + pt) r1) = true).
    { rewrite ps_firstn_add. apply ps_forallb_app; assumption. }
    apply ps_qsp_match in H. destruct H as [H|[[Hn H]|[[Hn H]|[_ H]]]]; try discriminate H.
    + apply ps_finish_ok in H; [exact H|exact Hn| |exact Hi].
      intros Hz. rewrite Hz in Hn. assert (ps = 0) by lia. subst ps.
      rewrite Ebuf in Hn. cbn [nth_error] in Hn. inversion Hn; subst first.
      rewrite Ebuf in Esc. discriminate Esc.
    + apply ps_sp_match in H. destruct H as [H|[[Hn2 H]|[_ H]]]; try discriminate H.
      apply ps_finish_ok in H; [exact H|exact Hn2|lia|].
      rewrite ps_firstn_add. apply ps_forallb_app.
      * rewrite (ps_firstn_S_nth _ _ _ Hn). apply ps_forallb_app; [exact Hi|reflexivity].
      * apply ps_uri_tail_ge. lia.
  - (* no slash *)
    cbv zeta in H.
    rewrite ?KV.Proofs.SwarSpec.match_uri_vectored_spec, ?KV.Proofs.SwarSpec.match_path_vectored_spec in H.
    destruct Hsc as [k [Hk Hpre]]. cbn [Nat.add] in Hk. subst k.
    apply ps_sp_match in H. destruct H as [H|[[Hn H]|[_ H]]]; try discriminate H.
    destruct (Nat.eqb (i + uri_tail (skipn i r1)) 0) eqn:Ez; [discriminate H|]. apply Nat.eqb_neq in Ez.
    apply ps_finish_ok in H; [exact H|exact Hn|exact Ez|].
    rewrite ps_firstn_add. apply ps_forallb_app; [exact Hpre|]. apply ps_uri_tail_ge. lia.
Qed.

(* ------------------------------------------------------------------ header lines *)
Lemma parse_header_line_sound line name value : parse_header_line line = Ok (name, value) ->
  exists raw, split_at x3a line = Some (name, raw) /\ value = field_value raw /\
              nonempty name && forallb is_tchar name = true.
Proof.
  unfold parse_header_line. intros H.
  destruct (find_index (Byte.eqb x3a) line) as [colon|] eqn:Ei; [|discriminate H]. cbv zeta in H.
  destruct (Nat.eqb colon 0 || negb (forallb is_valid_header_field_byte (firstn colon line))) eqn:Ec; [discriminate H|].
  apply orb_false_iff in Ec. destruct Ec as [Ec1 Ec2]. apply negb_false_iff in Ec2. apply Nat.eqb_neq in Ec1.
  destruct (str_unchecked (firstn colon line)) as [s| |] eqn:Eu; cbn [bind] in H; try discriminate H.
  apply ps_str_unchecked_inv in Eu. inversion H; subst.
  exists (skipn (S colon) line). split; [apply ps_find_index_split; exact Ei|]. split; [reflexivity|].
  rewrite (ps_find_index_nonempty _ _ _ Ei Ec1). cbn [andb].
  apply (ps_forallb_impl is_valid_header_field_byte is_tchar); [exact ps_field_byte_tchar|exact Ec2].
Qed.

Definition strict_fields_body (fuel' : nat) (l : bytes) : option (list sfield * bytes) :=
  match take_line l with
  | None => None
  | Some (line, rest) =>
      match split_at x3a line with
      | None => None
      | Some (name, raw) =>
          if nonempty name && forallb is_tchar name then
            match strict_fields fuel' rest with
            | Some (fs, rest') => Some ({| s_name := name; s_raw := raw |} :: fs, rest')
            | None => None
            end
          else None
      end
  end.

Lemma ps_crlf_list_match {A} (l : bytes) (a : bytes -> A) (b : A) :
  match l with x0d :: x0a :: rest => a rest | _ => b end =
  match strip_prefix [x0d; x0a] l with Some rest => a rest | None => b end.
Proof.
  destruct l as [|c l']; [reflexivity|]. destruct c; try reflexivity.
  destruct l' as [|d rest]; [reflexivity|]. destruct d; reflexivity.
Qed.

Lemma ps_strict_fields_eq fuel l : strict_fields (S fuel) l =
  match strip_prefix [x0d; x0a] l with
  | Some rest => Some ([], rest)
  | None => strict_fields_body fuel l
  end.
Proof.
  unfold strict_fields_body. cbn [strict_fields].
  apply (ps_crlf_list_match l (fun rest => Some ([], rest))).
Qed.

Lemma ps_take_line_intro buf nl : find_index (Byte.eqb x0a) buf = Some nl -> nl <> 0 ->
  nth_error buf (nl - 1) = Some x0d ->
  take_line buf = Some (firstn (nl - 1) buf, skipn (S nl) buf).
Proof.
  intros Hi Hnl Hn. rewrite take_line_unfold. unfold LF. rewrite (ps_find_index_split _ _ _ Hi).
  destruct nl as [|k]; [congruence|]. replace (S k - 1) with k in * by lia.
  rewrite (ps_firstn_S_nth _ _ _ Hn), rev_unit, rev_involutive. reflexivity.
Qed.

Definition add_pairs (h0 : headers) (fs : list (bytes * bytes)) : headers :=
  fold_left (fun h nv => add h (fst nv) (snd nv)) fs h0.

Lemma parse_headers_f_sound : forall fuel h0 buf hs r5, parse_headers_f fuel h0 buf = Ok (hs, r5) ->
  exists fs, strict_fields fuel buf = Some (fs, r5) /\ hs = add_pairs h0 (sfield_pairs fs).
Proof.
  induction fuel as [|fuel IH]; intros h0 buf hs r5 H; [discriminate H|].
  cbn [parse_headers_f] in H. rewrite ps_strict_fields_eq.
  destruct (strip_prefix [x0d; x0a] buf) as [rest|] eqn:Es.
  { inversion H; subst. exists []. split; reflexivity. }
  destruct (find_index (Byte.eqb x0a) buf) as [nl|] eqn:Ei; [|discriminate H].
  destruct (Nat.eqb nl 0) eqn:Enl; [discriminate H|]. apply Nat.eqb_neq in Enl.
  destruct (nth_error buf (nl - 1)) as [c|] eqn:En; [|discriminate H].
  destruct (negb (Byte.eqb c x0d)) eqn:Ec; [discriminate H|].
  apply negb_false_iff in Ec. apply byte_eqb_eq in Ec. subst c.
  destruct (parse_header_line (firstn (nl - 1) buf)) as [[name value]| |] eqn:Ep; cbn [bind] in H; try discriminate H.
  match type of H with (if ?c then _ else _) = _ => destruct c; [discriminate H|] end.
  apply IH in H. destruct H as [fs [Hfs Hhs]].
  apply parse_header_line_sound in Ep. destruct Ep as [raw [Hsp [Hval Hname]]].
  exists ({| s_name := name; s_raw := raw |} :: fs). unfold strict_fields_body.
  rewrite (ps_take_line_intro _ _ Ei Enl En), Hsp, Hname, Hfs. split; [reflexivity|].
  subst hs value. reflexivity.
Qed.

(* ------------------------------------------------------------------ C04: request_sound *)
Lemma ps_crlf_match {A} (r3 : bytes) (k : bytes -> res A) x :
  match r3 with
  | x0d :: x0a :: r4 => k r4
  | [] => Err EEof
  | [x0d] => Err EEof
  | _ => Err EStatus
  end = Ok x -> exists r4, r3 = x0d :: x0a :: r4 /\ k r4 = Ok x.
Proof.
  destruct r3 as [|a r]; intros H; [discriminate H|].
  destruct a; try discriminate H. destruct r as [|b r]; [discriminate H|].
  destruct b; try discriminate H. exists r. split; [reflexivity|exact H].
Qed.

Theorem request_sound : forall s r, parse_request s = Ok r ->
  exists sh, strict_head s = Some (sh, q_offset r) /\
    method_str (q_meth r) = s_method sh /\
    full (q_target r) = s_target sh /\
    q_version r = (if s_minor sh then 1 else 0)%N /\
    q_hdrs r = headers_of (sfield_pairs (s_fields sh)).
Proof.
  intros s r H. unfold parse_request in H.
  destruct (parse_method s) as [[m r1]| |] eqn:Em; cbn [bind] in H; try discriminate H.
  destruct (parse_uri r1) as [[u r2]| |] eqn:Eu; cbn [bind] in H; try discriminate H.
  destruct (parse_version r2) as [[v r3]| |] eqn:Ev; cbn [bind] in H; try discriminate H.
  apply ps_crlf_match in H. destruct H as [r4 [Hr3 H]]. subst r3.
  destruct (parse_headers r4) as [[hs r5]| |] eqn:Eh; cbn [bind] in H; try discriminate H.
  unfold offset_of in H. destruct (Nat.leb (length r5) (length s)); cbn [bind] in H; [|discriminate H].
  inversion H; subst r. clear H. cbn [q_offset q_meth q_target q_version q_hdrs].
  apply parse_method_sound in Em. destruct Em as [Hm1 Hm2].
  apply parse_uri_sound in Eu. destruct Eu as [Hu1 [Hu2 Hu3]].
  apply parse_version_sound in Ev. destruct Ev as [d [Hv1 Hv2]].
  unfold parse_headers in Eh. apply parse_headers_f_sound in Eh. destruct Eh as [fs [Hf1 Hf2]].
  unfold strict_head, SP. rewrite Hm1, Hm2. cbn [negb]. rewrite Hu1, Hu2, Hu3. cbn [andb negb].
  rewrite Hv1, Hf1.
  destruct Hv2 as [[Hd Hv]|[Hd Hv]]; subst d v; cbn [Byte.eqb orb];
    (eexists; split; [reflexivity|]); cbn [s_method s_target s_minor s_fields]; repeat split; exact Hf2.
Qed.

(* ------------------------------------------------------------------ C04: strict_head_exact *)
Lemma ps_take_line_inv l line rest : take_line l = Some (line, rest) -> l = line ++ [x0d; x0a] ++ rest.
Proof.
  rewrite take_line_unfold. unfold LF. intros H.
  destruct (split_at x0a l) as [[before rest']|] eqn:Es; [|discriminate H].
  apply ps_split_at_inv in Es.
  destruct (rev before) as [|c rb] eqn:Er; [discriminate H|].
  destruct c; try discriminate H. inversion H; subst line rest'. clear H.
  assert (Hb : before = rev rb ++ [x0d]).
  { rewrite <- (rev_involutive before), Er. reflexivity. }
  subst l before. rewrite <- app_assoc. reflexivity.
Qed.

Definition render_sfield (f : sfield) : bytes := s_name f ++ [x3a] ++ s_raw f ++ [x0d; x0a].

Lemma ps_strict_fields_exact : forall fuel l fs rest, strict_fields fuel l = Some (fs, rest) ->
  l = flat_map render_sfield fs ++ [x0d; x0a] ++ rest.
Proof.
  induction fuel as [|fuel IH]; intros l fs rest H; [discriminate H|].
  rewrite ps_strict_fields_eq in H.
  destruct (strip_prefix [x0d; x0a] l) as [rest0|] eqn:Es.
  { inversion H; subst. apply ps_strip_prefix_inv in Es. exact Es. }
  unfold strict_fields_body in H.
  destruct (take_line l) as [[line rest1]|] eqn:Et; [|discriminate H].
  destruct (split_at x3a line) as [[name raw]|] eqn:Ec; [|discriminate H].
  destruct (nonempty name && forallb is_tchar name); [|discriminate H].
  destruct (strict_fields fuel rest1) as [[fs' rest']|] eqn:Ef; [|discriminate H].
  inversion H; subst fs rest'. clear H.
  apply IH in Ef. apply ps_take_line_inv in Et. apply ps_split_at_inv in Ec.
  subst l line rest1. cbn [flat_map]. unfold render_sfield. cbn [s_name s_raw].
  rewrite <- ?app_assoc. cbn [app]. rewrite <- ?app_assoc. reflexivity.
Qed.

Lemma ps_r3_match {A} (r3 : bytes) (F : byte -> bytes -> option A) x :
  match r3 with d :: x0d :: x0a :: r4 => F d r4 | _ => None end = Some x ->
  exists d r4, r3 = d :: x0d :: x0a :: r4 /\ F d r4 = Some x.
Proof.
  destruct r3 as [|d r]; intros H; [discriminate H|].
  destruct r as [|a r]; [discriminate H|]. destruct a; try discriminate H.
  destruct r as [|b r]; [discriminate H|]. destruct b; try discriminate H.
  exists d, r. split; [reflexivity|exact H].
Qed.

Theorem strict_head_exact : forall s sh n, strict_head s = Some (sh, n) ->
  firstn n s = s_method sh ++ [x20] ++ s_target sh ++ [x20] ++ bs "HTTP/1." ++ [if s_minor sh then x31 else x30] ++
               [x0d; x0a] ++ flat_map (fun f => s_name f ++ [x3a] ++ s_raw f ++ [x0d; x0a]) (s_fields sh) ++ [x0d; x0a]
  /\ n <= length s.
Proof.
  intros s sh n H. unfold strict_head, SP in H.
  destruct (split_at x20 s) as [[m r1]|] eqn:E1; [|discriminate H].
  destruct (negb (nonempty m && forallb is_tchar m)); [discriminate H|].
  destruct (split_at x20 r1) as [[t r2]|] eqn:E2; [|discriminate H].
  destruct (negb (nonempty t && forallb is_vchar t)); [discriminate H|].
  destruct (strip_prefix (bs "HTTP/1.") r2) as [r3|] eqn:E3; [|discriminate H].
  apply ps_r3_match in H. destruct H as [d [r4 [Hr3 H]]]. subst r3.
  destruct (Byte.eqb d x31 || Byte.eqb d x30) eqn:Ed; [|discriminate H].
  destruct (strict_fields (S (length r4)) r4) as [[fs rest]|] eqn:Ef; [|discriminate H].
  inversion H; subst sh n. clear H. cbn [s_method s_target s_minor s_fields].
  apply ps_split_at_inv in E1. apply ps_split_at_inv in E2. apply ps_strip_prefix_inv in E3.
  apply ps_strict_fields_exact in Ef.
  assert (Hd : (if Byte.eqb d x31 then x31 else x30) = d).
  { destruct (Byte.eqb d x31) eqn:E31; [apply byte_eqb_eq in E31; congruence|].
    cbn [orb] in Ed. apply byte_eqb_eq in Ed. congruence. }
  rewrite Hd.
  set (consumed := m ++ [x20] ++ t ++ [x20] ++ bs "HTTP/1." ++ [d] ++ [x0d; x0a] ++
                   flat_map (fun f => s_name f ++ [x3a] ++ s_raw f ++ [x0d; x0a]) fs ++ [x0d; x0a]).
  assert (Hs : s = consumed ++ rest).
  { unfold consumed. subst s r1 r2 r4. unfold render_sfield.
    repeat (rewrite <- ?app_assoc; cbn [app]). reflexivity. }
  split; [|lia].
  rewrite Hs at 1 2. rewrite app_length. replace (length consumed + length rest - length rest) with (length consumed) by lia.
  rewrite firstn_app, Nat.sub_diag, firstn_all. cbn [firstn]. apply app_nil_r.
Qed.
