(* Proofs for C14 / C15 (Model/Epoll.v).
   Method: every connection is, at all times, in one of nine "modes" (M0 .. M8) that determine all its
   control fields; the modes form the life cycle
     M1 idle -> M2 queued -> M3 running -> (M1 | M4 deleted -> M5 dropped -> M6 closed stored -> M7 in the graveyard -> M8 freed)
   and M0 (EPOLL_CTL_ADD failed) is isolated.  (M6: the job's last phase JStored; M7: no job any more, the record waits for
   the loop; a stale event for the connection may still sit in the loop's batch in M4 .. M7, and the loop frees only when it
   has looked at every event of its batch.)  The invariant [cinv] is indexed by the number of LFree /
   LStreamDrop labels for the connection in the trace so far (ghost counters), which are functions of the mode. *)
From KV Require Import Lib.Bytes Model.Epoll.

(* ------------------------------------------------------------------------------------------ *)
(* generic list facts                                                                          *)

Lemma nth_error_set_nth_eq : forall {A} (l : list A) c x k,
  nth_error l c = Some k -> nth_error (set_nth l c x) c = Some x.
Proof.
  intros A l. induction l as [|y r IH]; intros c x k Hn.
  - destruct c; discriminate Hn.
  - destruct c as [|c]; simpl in *.
    + reflexivity.
    + eapply IH. exact Hn.
Qed.

Lemma nth_error_set_nth_neq : forall {A} (l : list A) c c' x,
  c <> c' -> nth_error (set_nth l c x) c' = nth_error l c'.
Proof.
  intros A l. induction l as [|y r IH]; intros c c' x Hne.
  - destruct c; reflexivity.
  - destruct c as [|c]; destruct c' as [|c']; simpl; try reflexivity.
    + exfalso. apply Hne. reflexivity.
    + apply IH. intro Heq. apply Hne. f_equal. exact Heq.
Qed.

Lemma nth_error_map_combine_seq : forall {A B} (g : nat * A -> B) (l : list A) a c,
  nth_error (map g (combine (seq a (length l)) l)) c =
  match nth_error l c with Some k => Some (g (a + c, k)) | None => None end.
Proof.
  intros A B g l. induction l as [|y r IH]; intros a c.
  - destruct c; reflexivity.
  - destruct c as [|c]; simpl.
    + rewrite Nat.add_0_r. reflexivity.
    + rewrite IH. replace (S a + c) with (a + S c) by lia. reflexivity.
Qed.

Lemma existsb_eqb_In : forall c (l : list nat), existsb (Nat.eqb c) l = true -> In c l.
Proof.
  intros c l Hex. apply existsb_exists in Hex. destruct Hex as [x [Hin Heq]].
  apply Nat.eqb_eq in Heq. subst x. exact Hin.
Qed.

Lemma run_app : forall tr s l,
  run s (tr ++ [l]) = match run s tr with Some s1 => step s1 l | None => None end.
Proof.
  intros tr. induction tr as [|a r IH]; intros s l.
  - simpl. destruct (step s l); reflexivity.
  - change (run s ((a :: r) ++ [l])) with (match step s a with Some s' => run s' (r ++ [l]) | None => None end).
    change (run s (a :: r)) with (match step s a with Some s' => run s' r | None => None end).
    destruct (step s a) as [s'|].
    + apply IH.
    + reflexivity.
Qed.

(* ------------------------------------------------------------------------------------------ *)
(* ghost counters                                                                              *)

Definition cnt (p : elabel -> bool) (tr : list elabel) : nat := length (filter p tr).
Definition isfree (c : nat) (l : elabel) : bool := match l with LFree c' => Nat.eqb c c' | _ => false end.
Definition isdrop (c : nat) (l : elabel) : bool := match l with LStreamDrop c' => Nat.eqb c c' | _ => false end.
Definition bn (b : bool) : nat := if b then 1 else 0.

Lemma cnt_snoc : forall p tr l, cnt p (tr ++ [l]) = cnt p tr + bn (p l).
Proof.
  intros p tr l. unfold cnt. rewrite filter_app, app_length. simpl.
  destruct (p l); reflexivity.
Qed.

(* ------------------------------------------------------------------------------------------ *)
(* modes                                                                                       *)

Inductive mode := M0 | M1 | M2 | M3 | M4 | M5 | M6 | M7 | M8.

Definition m_rec (m : mode) : alloc := match m with M0 | M8 => AFreed | _ => ALive end.
Definition m_stream (m : mode) : bool := match m with M1 | M2 | M3 | M4 => true | _ => false end.
Definition m_reg (m : mode) : bool := match m with M1 | M2 | M3 => true | _ => false end.
Definition m_infl (m : mode) : bool := match m with M0 | M1 => false | _ => true end.
Definition m_closed (m : mode) : bool := match m with M6 | M7 | M8 => true | _ => false end.
Definition m_jobs (m : mode) : list jphase :=
  match m with M2 => [JQueued] | M3 => [JRunning] | M4 => [JDeleted] | M5 => [JDropped] | M6 => [JStored] | _ => [] end.
Definition m_grave (m : mode) : bool := match m with M7 => true | _ => false end.
Definition m_inb_ok (m : mode) : bool := match m with M0 | M8 => false | _ => true end.
Definition m_nfree (m : mode) : nat := match m with M8 => 1 | _ => 0 end.
Definition m_ndrop (m : mode) : nat := match m with M5 | M6 | M7 | M8 => 1 | _ => 0 end.

Definition mk (m : mode) (pend : nat) (peer inb : bool) (ans : nat) : conn :=
  {| k_rec := m_rec m; k_stream := m_stream m; k_registered := m_reg m; k_in_flight := m_infl m;
     k_closed := m_closed m; k_pending := pend; k_peer_closed := peer; k_jobs := m_jobs m;
     k_in_batch := inb; k_grave := m_grave m; k_answered := ans; k_taken := seq 0 ans |}.

Inductive cinv (lp : elstate) : nat -> nat -> conn -> Prop :=
| CI : forall m pend peer inb ans,
    (inb = true -> lp = EBatch /\ m_inb_ok m = true) ->
    cinv lp (m_nfree m) (m_ndrop m) (mk m pend peer inb ans).

Lemma cinv_intro : forall lp nf nd k m pend peer inb ans,
  k = mk m pend peer inb ans -> nf = m_nfree m -> nd = m_ndrop m ->
  (inb = true -> lp = EBatch /\ m_inb_ok m = true) ->
  cinv lp nf nd k.
Proof.
  intros lp nf nd k m pend peer inb ans Hk Hnf Hnd Hinb. subst k nf nd.
  apply CI; assumption.
Qed.

(* the whole-state invariant, relative to the trace that led to the state *)
Definition sinv (tr : list elabel) (s : estate) : Prop :=
  forall c,
    match nth_error (e_conns s) c with
    | Some k => cinv (e_loop s) (cnt (isfree c) tr) (cnt (isdrop c) tr) k
    | None => cnt (isfree c) tr = 0 /\ cnt (isdrop c) tr = 0
    end.

(* ------------------------------------------------------------------------------------------ *)
(* frame lemma for the labels that act on one connection through [with_conn]                    *)

Lemma with_conn_inv : forall s c f s',
  with_conn s c f = Some s' ->
  exists k k', nth_error (e_conns s) c = Some k /\ f k = Some k' /\
               s' = {| e_conns := set_nth (e_conns s) c k'; e_loop := e_loop s |}.
Proof.
  intros s c f s' Hw. unfold with_conn in Hw.
  destruct (nth_error (e_conns s) c) as [k|] eqn:Hn; [|discriminate Hw].
  destruct (f k) as [k'|] eqn:Hf; [|discriminate Hw].
  exists k, k'. inversion Hw. auto.
Qed.

Lemma with_conn_pres : forall tr s l c0 f s',
  sinv tr s ->
  with_conn s c0 f = Some s' ->
  (forall c, c <> c0 -> isfree c l = false /\ isdrop c l = false) ->
  (forall k k' nf nd, nth_error (e_conns s) c0 = Some k -> cinv (e_loop s) nf nd k -> f k = Some k' ->
     cinv (e_loop s) (nf + bn (isfree c0 l)) (nd + bn (isdrop c0 l)) k') ->
  sinv (tr ++ [l]) s'.
Proof.
  intros tr s l c0 f s' Hinv Hw Hother Hconn.
  apply with_conn_inv in Hw. destruct Hw as [k [k' [Hn [Hf Hs']]]]. subst s'.
  intros c. simpl. rewrite !cnt_snoc.
  destruct (Nat.eq_dec c0 c) as [Heq|Hne].
  - subst c. rewrite (nth_error_set_nth_eq _ _ _ _ Hn).
    pose proof (Hinv c0) as Hc. rewrite Hn in Hc.
    eapply Hconn; eassumption.
  - rewrite (nth_error_set_nth_neq _ _ _ _ Hne).
    assert (Hne' : c <> c0) by (intro Hx; apply Hne; symmetry; exact Hx).
    destruct (Hother c Hne') as [Hf0 Hd0]. rewrite Hf0, Hd0. simpl. rewrite !Nat.add_0_r.
    apply Hinv.
Qed.

Lemma isfree_refl : forall c, isfree c (LFree c) = true.
Proof. intros c. simpl. apply Nat.eqb_refl. Qed.
Lemma isdrop_refl : forall c, isdrop c (LStreamDrop c) = true.
Proof. intros c. simpl. apply Nat.eqb_refl. Qed.
Lemma isfree_neq : forall c c0, c <> c0 -> isfree c (LFree c0) = false.
Proof. intros c c0 Hne. simpl. apply Nat.eqb_neq. exact Hne. Qed.
Lemma isdrop_neq : forall c c0, c <> c0 -> isdrop c (LStreamDrop c0) = false.
Proof. intros c c0 Hne. simpl. apply Nat.eqb_neq. exact Hne. Qed.

(* ------------------------------------------------------------------------------------------ *)
(* per-connection preservation, one lemma per label                                             *)

Ltac inv_cinv H m pend peer inb ans Hinb :=
  inversion H as [m pend peer inb ans Hinb]; subst; clear H.

(* close a goal [cinv lp nf nd k] for a concrete k by exhibiting the mode *)
Ltac close_with m' pe pr ib an :=
  apply (cinv_intro _ _ _ _ m' pe pr ib an);
  [ reflexivity | reflexivity | reflexivity
  | let Hx := fresh "Hx" in intro Hx; first [ discriminate Hx | auto ] ].

Lemma pres_send : forall lp nf nd k k',
  cinv lp nf nd k ->
  (if k_peer_closed k then None else
     Some {| k_rec := k_rec k; k_stream := k_stream k; k_registered := k_registered k; k_in_flight := k_in_flight k;
             k_closed := k_closed k; k_pending := S (k_pending k); k_peer_closed := false; k_jobs := k_jobs k;
             k_in_batch := k_in_batch k; k_grave := k_grave k; k_answered := k_answered k; k_taken := k_taken k |}) = Some k' ->
  cinv lp (nf + 0) (nd + 0) k'.
Proof.
  intros lp nf nd k k' Hc Hf. rewrite !Nat.add_0_r.
  inv_cinv Hc m pend peer inb ans Hinb. simpl in Hf.
  destruct peer; [discriminate Hf|]. inversion Hf; subst k'; clear Hf.
  apply (CI lp m (S pend) false inb ans); assumption.
Qed.

Lemma pres_close : forall lp nf nd k k',
  cinv lp nf nd k ->
  Some {| k_rec := k_rec k; k_stream := k_stream k; k_registered := k_registered k; k_in_flight := k_in_flight k;
          k_closed := k_closed k; k_pending := k_pending k; k_peer_closed := true; k_jobs := k_jobs k;
          k_in_batch := k_in_batch k; k_grave := k_grave k; k_answered := k_answered k; k_taken := k_taken k |} = Some k' ->
  cinv lp (nf + 0) (nd + 0) k'.
Proof.
  intros lp nf nd k k' Hc Hf. rewrite !Nat.add_0_r.
  inv_cinv Hc m pend peer inb ans Hinb. simpl in Hf.
  inversion Hf; subst k'; clear Hf.
  apply (CI lp m pend true inb ans); assumption.
Qed.

Lemma pres_event : forall o nf nd k k',
  cinv EBatch nf nd k ->
  (if negb (k_in_batch k) then None else
   let actual := if k_closed k then OStale else if k_in_flight k then OBusy else ODispatched in
   if match actual, o with OStale, OStale | ODispatched, ODispatched | OBusy, OBusy => true | _, _ => false end then
     Some {| k_rec := k_rec k; k_stream := k_stream k; k_registered := k_registered k;
             k_in_flight := match actual with ODispatched => true | _ => k_in_flight k end;
             k_closed := k_closed k; k_pending := k_pending k; k_peer_closed := k_peer_closed k;
             k_jobs := match actual with ODispatched => k_jobs k ++ [JQueued] | _ => k_jobs k end;
             k_in_batch := false;
             k_grave := k_grave k;
             k_answered := k_answered k; k_taken := k_taken k |}
   else None) = Some k' ->
  cinv EBatch (nf + 0) (nd + 0) k'.
Proof.
  intros o nf nd k k' Hc Hf. rewrite !Nat.add_0_r.
  inv_cinv Hc m pend peer inb ans Hinb.
  destruct inb; [|discriminate Hf].
  destruct (Hinb eq_refl) as [_ Hok].
  destruct m; try discriminate Hok; destruct o; try discriminate Hf;
    simpl in Hf; inversion Hf; subst k'; clear Hf.
  - close_with M2 pend peer false ans.
  - close_with M2 pend peer false ans.
  - close_with M3 pend peer false ans.
  - close_with M4 pend peer false ans.
  - close_with M5 pend peer false ans.
  - close_with M6 pend peer false ans.
  - close_with M7 pend peer false ans.
Qed.

Lemma pres_free : forall nf nd k k',
  cinv EBatch nf nd k -> k_in_batch k = false ->
  (if k_grave k then
     Some {| k_rec := AFreed; k_stream := k_stream k; k_registered := k_registered k; k_in_flight := k_in_flight k;
             k_closed := k_closed k; k_pending := k_pending k; k_peer_closed := k_peer_closed k; k_jobs := k_jobs k;
             k_in_batch := k_in_batch k; k_grave := false; k_answered := k_answered k; k_taken := k_taken k |}
   else None) = Some k' ->
  cinv EBatch (nf + 1) (nd + 0) k'.
Proof.
  intros nf nd k k' Hc Hb Hf. rewrite !Nat.add_0_r.
  inv_cinv Hc m pend peer inb ans Hinb. simpl in Hb. subst inb.
  destruct m; try discriminate Hf.
  simpl in Hf. inversion Hf; subst k'; clear Hf.
  close_with M8 pend peer false ans.
Qed.

Lemma pres_jobstart : forall lp nf nd k k',
  cinv lp nf nd k ->
  match move_job (k_jobs k) JQueued (Some JRunning) with
  | Some js =>
      Some (match k_pending k with
            | S p => {| k_rec := k_rec k; k_stream := k_stream k; k_registered := k_registered k; k_in_flight := k_in_flight k;
                        k_closed := k_closed k; k_pending := p; k_peer_closed := k_peer_closed k; k_jobs := js;
                        k_in_batch := k_in_batch k; k_grave := k_grave k; k_answered := S (k_answered k);
                        k_taken := k_taken k ++ [k_answered k] |}
            | O => upd_jobs k js
            end)
  | None => None
  end = Some k' ->
  cinv lp (nf + 0) (nd + 0) k'.
Proof.
  intros lp nf nd k k' Hc Hf. rewrite !Nat.add_0_r.
  inv_cinv Hc m pend peer inb ans Hinb.
  destruct m; try discriminate Hf.
  simpl in Hf. destruct pend as [|p]; inversion Hf; subst k'; clear Hf.
  - unfold upd_jobs; simpl. close_with M3 0 peer inb ans.
  - replace (seq 0 ans ++ [ans]) with (seq 0 (S ans)) by (rewrite seq_S; reflexivity).
    close_with M3 p peer inb (S ans).
Qed.

Lemma pres_rearm : forall lp nf nd k k',
  cinv lp nf nd k ->
  match move_job (k_jobs k) JRunning None with
  | Some js =>
      Some {| k_rec := k_rec k; k_stream := k_stream k; k_registered := k_registered k; k_in_flight := false;
              k_closed := k_closed k; k_pending := k_pending k; k_peer_closed := k_peer_closed k; k_jobs := js;
              k_in_batch := k_in_batch k; k_grave := k_grave k; k_answered := k_answered k; k_taken := k_taken k |}
  | None => None
  end = Some k' ->
  cinv lp (nf + 0) (nd + 0) k'.
Proof.
  intros lp nf nd k k' Hc Hf. rewrite !Nat.add_0_r.
  inv_cinv Hc m pend peer inb ans Hinb.
  destruct m; try discriminate Hf.
  simpl in Hf. inversion Hf; subst k'; clear Hf.
  close_with M1 pend peer inb ans.
Qed.

Lemma pres_del : forall lp nf nd k k',
  cinv lp nf nd k ->
  match move_job (k_jobs k) JRunning (Some JDeleted) with
  | Some js =>
      Some {| k_rec := k_rec k; k_stream := k_stream k; k_registered := false; k_in_flight := k_in_flight k;
              k_closed := k_closed k; k_pending := k_pending k; k_peer_closed := k_peer_closed k; k_jobs := js;
              k_in_batch := k_in_batch k; k_grave := k_grave k; k_answered := k_answered k; k_taken := k_taken k |}
  | None => None
  end = Some k' ->
  cinv lp (nf + 0) (nd + 0) k'.
Proof.
  intros lp nf nd k k' Hc Hf. rewrite !Nat.add_0_r.
  inv_cinv Hc m pend peer inb ans Hinb.
  destruct m; try discriminate Hf.
  simpl in Hf. inversion Hf; subst k'; clear Hf.
  close_with M4 pend peer inb ans.
Qed.

Lemma pres_drop : forall lp nf nd k k',
  cinv lp nf nd k ->
  match move_job (k_jobs k) JDeleted (Some JDropped) with
  | Some js =>
      Some {| k_rec := k_rec k; k_stream := false; k_registered := k_registered k; k_in_flight := k_in_flight k;
              k_closed := k_closed k; k_pending := k_pending k; k_peer_closed := k_peer_closed k; k_jobs := js;
              k_in_batch := k_in_batch k; k_grave := k_grave k; k_answered := k_answered k; k_taken := k_taken k |}
  | None => None
  end = Some k' ->
  cinv lp (nf + 0) (nd + 1) k'.
Proof.
  intros lp nf nd k k' Hc Hf. rewrite !Nat.add_0_r.
  inv_cinv Hc m pend peer inb ans Hinb.
  destruct m; try discriminate Hf.
  simpl in Hf. inversion Hf; subst k'; clear Hf.
  close_with M5 pend peer inb ans.
Qed.

Lemma pres_closedstore : forall lp nf nd k k',
  cinv lp nf nd k ->
  match move_job (k_jobs k) JDropped (Some JStored) with
  | Some js =>
      Some {| k_rec := k_rec k; k_stream := k_stream k; k_registered := k_registered k; k_in_flight := k_in_flight k;
              k_closed := true; k_pending := k_pending k; k_peer_closed := k_peer_closed k; k_jobs := js;
              k_in_batch := k_in_batch k; k_grave := k_grave k; k_answered := k_answered k; k_taken := k_taken k |}
  | None => None
  end = Some k' ->
  cinv lp (nf + 0) (nd + 0) k'.
Proof.
  intros lp nf nd k k' Hc Hf. rewrite !Nat.add_0_r.
  inv_cinv Hc m pend peer inb ans Hinb.
  destruct m; try discriminate Hf.
  simpl in Hf. inversion Hf; subst k'; clear Hf.
  close_with M6 pend peer inb ans.
Qed.

Lemma pres_grave : forall lp nf nd k k',
  cinv lp nf nd k ->
  match move_job (k_jobs k) JStored None with
  | Some js =>
      Some {| k_rec := k_rec k; k_stream := k_stream k; k_registered := k_registered k; k_in_flight := k_in_flight k;
              k_closed := k_closed k; k_pending := k_pending k; k_peer_closed := k_peer_closed k; k_jobs := js;
              k_in_batch := k_in_batch k; k_grave := true; k_answered := k_answered k; k_taken := k_taken k |}
  | None => None
  end = Some k' ->
  cinv lp (nf + 0) (nd + 0) k'.
Proof.
  intros lp nf nd k k' Hc Hf. rewrite !Nat.add_0_r.
  inv_cinv Hc m pend peer inb ans Hinb.
  destruct m; try discriminate Hf.
  simpl in Hf. inversion Hf; subst k'; clear Hf.
  close_with M7 pend peer inb ans.
Qed.

(* ------------------------------------------------------------------------------------------ *)
(* the loop-state changes                                                                      *)

Lemma cinv_to_batch : forall nf nd k, cinv EWaiting nf nd k -> cinv EBatch nf nd k.
Proof.
  intros nf nd k Hc. inv_cinv Hc m pend peer inb ans Hinb.
  apply CI.
  intro Hx. destruct (Hinb Hx) as [Hl _]. discriminate Hl.
Qed.

Lemma cinv_enter_batch : forall nf nd k,
  cinv EWaiting nf nd k -> ready k = true ->
  cinv EBatch nf nd
    {| k_rec := k_rec k; k_stream := k_stream k; k_registered := k_registered k; k_in_flight := k_in_flight k;
       k_closed := k_closed k; k_pending := k_pending k; k_peer_closed := k_peer_closed k; k_jobs := k_jobs k;
       k_in_batch := true; k_grave := k_grave k; k_answered := k_answered k; k_taken := k_taken k |}.
Proof.
  intros nf nd k Hc Hr. inv_cinv Hc m pend peer inb ans Hinb.
  unfold ready in Hr. apply andb_true_iff in Hr. destruct Hr as [Hreg _].
  simpl in Hreg.
  destruct m; try discriminate Hreg; simpl.
  - close_with M1 pend peer true ans.
  - close_with M2 pend peer true ans.
  - close_with M3 pend peer true ans.
Qed.

Lemma cinv_leave_batch : forall nf nd k,
  cinv EBatch nf nd k -> k_in_batch k = false -> cinv EWaiting nf nd k.
Proof.
  intros nf nd k Hc Hb. inv_cinv Hc m pend peer inb ans Hinb.
  simpl in Hb. subst inb.
  apply CI.
  intro Hx. discriminate Hx.
Qed.

(* ------------------------------------------------------------------------------------------ *)
(* preservation by every step                                                                  *)

Lemma step_pres : forall tr s l s', sinv tr s -> step s l = Some s' -> sinv (tr ++ [l]) s'.
Proof.
  intros tr s l s' Hinv Hstep.
  destruct l as [ok|c0|c0|batch|c0 o|c0| |c0|c0|c0|c0|c0|c0]; unfold step in Hstep.
  - (* LAccept *)
    inversion Hstep; subst s'; clear Hstep.
    intros c. simpl. rewrite !cnt_snoc. simpl. rewrite !Nat.add_0_r.
    pose proof (Hinv c) as Hc.
    destruct (Nat.lt_ge_cases c (length (e_conns s))) as [Hlt|Hge].
    + rewrite nth_error_app1 by exact Hlt. exact Hc.
    + rewrite nth_error_app2 by exact Hge.
      assert (Hnone : nth_error (e_conns s) c = None) by (apply nth_error_None; exact Hge).
      rewrite Hnone in Hc. destruct Hc as [Hf0 Hd0]. rewrite Hf0, Hd0.
      destruct (c - length (e_conns s)) as [|d] eqn:Hd.
      * simpl. destruct ok.
        -- close_with M1 0 false false 0.
        -- close_with M0 0 false false 0.
      * simpl. destruct d; split; reflexivity.
  - (* LClientSend *)
    eapply with_conn_pres; [exact Hinv | exact Hstep | intros c _; split; reflexivity |].
    intros k k' nf nd _ Hc Hf. eapply pres_send; eassumption.
  - (* LClientClose *)
    eapply with_conn_pres; [exact Hinv | exact Hstep | intros c _; split; reflexivity |].
    intros k k' nf nd _ Hc Hf. eapply pres_close; eassumption.
  - (* LWait *)
    destruct (e_loop s) eqn:Hloop; [|discriminate Hstep].
    match type of Hstep with (if ?b then _ else _) = _ => destruct b eqn:Hcond; [|discriminate Hstep] end.
    inversion Hstep; subst s'; clear Hstep.
    apply andb_true_iff in Hcond. destruct Hcond as [_ Hall].
    intros c. simpl. rewrite !cnt_snoc. simpl. rewrite !Nat.add_0_r.
    rewrite nth_error_map_combine_seq. simpl.
    pose proof (Hinv c) as Hc. rewrite Hloop in Hc.
    destruct (nth_error (e_conns s) c) as [k|] eqn:Hn; [|exact Hc].
    destruct (existsb (Nat.eqb c) batch) eqn:Hex.
    + apply existsb_eqb_In in Hex.
      pose proof (proj1 (forallb_forall _ _) Hall c Hex) as Hr. simpl in Hr. rewrite Hn in Hr.
      apply cinv_enter_batch; assumption.
    + apply cinv_to_batch. exact Hc.
  - (* LEvent *)
    destruct (e_loop s) eqn:Hloop; [discriminate Hstep|].
    eapply with_conn_pres; [exact Hinv | exact Hstep | intros c _; split; reflexivity |].
    rewrite Hloop. intros k k' nf nd _ Hc Hf. eapply pres_event; eassumption.
  - (* LFree *)
    destruct (e_loop s) eqn:Hloop; [discriminate Hstep|].
    destruct (forallb (fun k => negb (k_in_batch k)) (e_conns s)) eqn:Hall; [|discriminate Hstep].
    cbn [negb] in Hstep.
    eapply with_conn_pres; [exact Hinv | exact Hstep | |].
    + intros c Hne. split; [apply isfree_neq; exact Hne | reflexivity].
    + rewrite Hloop, isfree_refl. intros k k' nf nd Hn Hc Hf.
      apply nth_error_In in Hn.
      pose proof (proj1 (forallb_forall _ _) Hall k Hn) as Hb. simpl in Hb. apply negb_true_iff in Hb.
      eapply pres_free; eassumption.
  - (* LBatchEnd *)
    destruct (e_loop s) eqn:Hloop; [discriminate Hstep|].
    match type of Hstep with (if ?b then _ else _) = _ => destruct b eqn:Hcond; [|discriminate Hstep] end.
    inversion Hstep; subst s'; clear Hstep.
    intros c. simpl. rewrite !cnt_snoc. simpl. rewrite !Nat.add_0_r.
    pose proof (Hinv c) as Hc. rewrite Hloop in Hc.
    destruct (nth_error (e_conns s) c) as [k|] eqn:Hn; [|exact Hc].
    apply nth_error_In in Hn.
    pose proof (proj1 (forallb_forall _ _) Hcond k Hn) as Hb. simpl in Hb.
    apply negb_true_iff in Hb.
    apply cinv_leave_batch; assumption.
  - (* LJobStart *)
    eapply with_conn_pres; [exact Hinv | exact Hstep | intros c _; split; reflexivity |].
    intros k k' nf nd _ Hc Hf. eapply pres_jobstart; eassumption.
  - (* LRearm *)
    eapply with_conn_pres; [exact Hinv | exact Hstep | intros c _; split; reflexivity |].
    intros k k' nf nd _ Hc Hf. eapply pres_rearm; eassumption.
  - (* LDel *)
    eapply with_conn_pres; [exact Hinv | exact Hstep | intros c _; split; reflexivity |].
    intros k k' nf nd _ Hc Hf. eapply pres_del; eassumption.
  - (* LStreamDrop *)
    eapply with_conn_pres; [exact Hinv | exact Hstep | |].
    + intros c Hne. split; [reflexivity | apply isdrop_neq; exact Hne].
    + rewrite isdrop_refl. intros k k' nf nd _ Hc Hf. eapply pres_drop; eassumption.
  - (* LClosedStore *)
    eapply with_conn_pres; [exact Hinv | exact Hstep | intros c _; split; reflexivity |].
    intros k k' nf nd _ Hc Hf. eapply pres_closedstore; eassumption.
  - (* LGrave *)
    eapply with_conn_pres; [exact Hinv | exact Hstep | intros c _; split; reflexivity |].
    intros k k' nf nd _ Hc Hf. eapply pres_grave; eassumption.
Qed.

Lemma run_inv : forall tr s, run ep_init tr = Some s -> sinv tr s.
Proof.
  intros tr. induction tr as [|l tr IH] using rev_ind; intros s Hrun.
  - simpl in Hrun. inversion Hrun; subst s. intros c. simpl.
    destruct c; split; reflexivity.
  - rewrite run_app in Hrun.
    destruct (run ep_init tr) as [s1|] eqn:Hr1; [|discriminate Hrun].
    eapply step_pres; [apply IH; reflexivity | exact Hrun].
Qed.

Lemma run_cinv : forall tr s c k, run ep_init tr = Some s -> nth_error (e_conns s) c = Some k ->
  cinv (e_loop s) (cnt (isfree c) tr) (cnt (isdrop c) tr) k.
Proof.
  intros tr s c k Hrun Hn. pose proof (run_inv tr s Hrun c) as Hc. rewrite Hn in Hc. exact Hc.
Qed.

(* ------------------------------------------------------------------------------------------ *)
(* C14                                                                                         *)

Lemma one_worker : forall tr s c k, run ep_init tr = Some s -> nth_error (e_conns s) c = Some k ->
  length (k_jobs k) <= 1 /\ (k_jobs k <> [] -> k_in_flight k = true).
Proof.
  intros tr s c k Hrun Hn. pose proof (run_cinv tr s c k Hrun Hn) as Hc.
  inv_cinv Hc m pend peer inb ans Hinb.
  destruct m; simpl; split; try lia; intro Hne; try reflexivity; exfalso; apply Hne; reflexivity.
Qed.

Lemma in_order : forall tr s c k, run ep_init tr = Some s -> nth_error (e_conns s) c = Some k ->
  k_taken k = seq 0 (k_answered k).
Proof.
  intros tr s c k Hrun Hn. pose proof (run_cinv tr s c k Hrun Hn) as Hc.
  inv_cinv Hc m pend peer inb ans Hinb. reflexivity.
Qed.

Lemma no_lost_wakeup : forall tr s c k, run ep_init tr = Some s -> nth_error (e_conns s) c = Some k ->
  ready k = true ->
  k_jobs k <> [] \/
  (k_in_flight k = false /\ k_closed k = false /\
   (k_in_batch k = true \/ (e_loop s = EWaiting -> exists s', step s (LWait [c]) = Some s'))).
Proof.
  intros tr s c k Hrun Hn Hready. pose proof (run_cinv tr s c k Hrun Hn) as Hc.
  assert (Hwait : e_loop s = EWaiting -> exists s', step s (LWait [c]) = Some s').
  { intro Hl. unfold step. rewrite Hl.
    assert (Hcond : all_distinct [c] &&
              forallb (fun c0 => match nth_error (e_conns s) c0 with Some k0 => ready k0 | None => false end) [c] = true).
    { simpl. rewrite Hn, Hready. reflexivity. }
    rewrite Hcond. eexists. reflexivity. }
  inv_cinv Hc m pend peer inb ans Hinb.
  unfold ready in Hready. apply andb_true_iff in Hready. destruct Hready as [Hreg _]. simpl in Hreg.
  destruct m; try discriminate Hreg; simpl.
  - right. split; [reflexivity|]. split; [reflexivity|]. right. exact Hwait.
  - left. intro Hx. discriminate Hx.
  - left. intro Hx. discriminate Hx.
Qed.

Lemma dispatch_enabled : forall tr s c k, run ep_init tr = Some s -> nth_error (e_conns s) c = Some k ->
  e_loop s = EBatch -> k_in_batch k = true -> k_in_flight k = false -> k_closed k = false ->
  exists s', step s (LEvent c ODispatched) = Some s'.
Proof.
  intros tr s c k _ Hn Hl Hb Hf Hcl.
  unfold step. rewrite Hl. unfold with_conn. rewrite Hn, Hb, Hcl, Hf. simpl.
  eexists. reflexivity.
Qed.

(* ------------------------------------------------------------------------------------------ *)
(* C15                                                                                         *)

Lemma all_steps_safe : forall tr s l s', run ep_init tr = Some s -> step s l = Some s' -> safe s l = true.
Proof.
  intros tr s l s' Hrun Hstep.
  destruct l as [ok|c0|c0|batch|c0 o|c0| |c0|c0|c0|c0|c0|c0]; try reflexivity;
    unfold step in Hstep;
    try (destruct (e_loop s) eqn:Hloop; [discriminate Hstep|]);
    try (destruct (forallb (fun k => negb (k_in_batch k)) (e_conns s)) eqn:Hall; [cbn [negb] in Hstep|discriminate Hstep]);
    apply with_conn_inv in Hstep; destruct Hstep as [k [k' [Hn [Hf _]]]];
    pose proof (run_cinv tr s c0 k Hrun Hn) as Hc;
    unfold safe, rec_live, stream_open, conn_of; rewrite Hn;
    inv_cinv Hc m pend peer inb ans Hinb.
  - (* LEvent *)
    destruct inb; [|discriminate Hf]. destruct (Hinb eq_refl) as [_ Hok].
    destruct m; try discriminate Hok; reflexivity.
  - (* LFree *) destruct m; try discriminate Hf; reflexivity.
  - (* LJobStart *) destruct m; try discriminate Hf; reflexivity.
  - (* LRearm *) destruct m; try discriminate Hf; reflexivity.
  - (* LDel *) destruct m; try discriminate Hf; reflexivity.
  - (* LStreamDrop *) destruct m; try discriminate Hf; reflexivity.
  - (* LClosedStore *) destruct m; try discriminate Hf; reflexivity.
  - (* LGrave *) destruct m; try discriminate Hf; reflexivity.
Qed.

Lemma cinv_counts : forall lp nf nd k, cinv lp nf nd k -> nf <= 1 /\ nd <= 1.
Proof.
  intros lp nf nd k Hc. destruct Hc as [m pend peer inb ans Hinb].
  destruct m; simpl; split; lia.
Qed.

Lemma release_at_most_once : forall tr s c, run ep_init tr = Some s ->
  cnt (isfree c) tr <= 1 /\ cnt (isdrop c) tr <= 1.
Proof.
  intros tr s c Hrun. pose proof (run_inv tr s Hrun c) as Hc.
  destruct (nth_error (e_conns s) c) as [k|].
  - apply (cinv_counts _ _ _ _ Hc).
  - destruct Hc as [Hf0 Hd0]. rewrite Hf0, Hd0. split; lia.
Qed.

Lemma freed_is_dead : forall tr s c k, run ep_init tr = Some s -> nth_error (e_conns s) c = Some k ->
  k_rec k = AFreed -> k_jobs k = [] /\ k_registered k = false /\ k_stream k = false /\ k_in_batch k = false.
Proof.
  intros tr s c k Hrun Hn Hfreed. pose proof (run_cinv tr s c k Hrun Hn) as Hc.
  inv_cinv Hc m pend peer inb ans Hinb. simpl in Hfreed.
  assert (Hib : m_inb_ok m = false -> inb = false).
  { intro Hno. destruct inb; [|reflexivity]. destruct (Hinb eq_refl) as [_ Hok]. rewrite Hok in Hno. discriminate Hno. }
  destruct m; try discriminate Hfreed; simpl; repeat split; apply Hib; reflexivity.
Qed.

Lemma filter_stream_nil : forall (l : list conn),
  (forall k, In k l -> k_stream k = false) -> filter k_stream l = [].
Proof.
  intros l. induction l as [|k r IH]; intros Hall.
  - reflexivity.
  - simpl. rewrite (Hall k (or_introl eq_refl)). apply IH. intros k0 Hin. apply Hall. right. exact Hin.
Qed.

Lemma no_open_streams : forall tr s, run ep_init tr = Some s -> all_ended s = true -> open_streams s = 0.
Proof.
  intros tr s Hrun Hend. unfold open_streams. rewrite filter_stream_nil; [reflexivity|].
  intros k Hin. unfold all_ended in Hend.
  destruct (e_loop s) eqn:Hloop; [|discriminate Hend].
  pose proof (proj1 (forallb_forall _ _) Hend k Hin) as Hk. simpl in Hk.
  apply In_nth_error in Hin. destruct Hin as [c Hn].
  pose proof (run_cinv tr s c k Hrun Hn) as Hc.
  inv_cinv Hc m pend peer inb ans Hinb.
  destruct m; simpl in Hk; try discriminate Hk; reflexivity.
Qed.
