(* C03: verdicts of the head parsers are stable under extension of the input. *)
From KV Require Import Lib.Bytes Lib.Swar Model.Headers Model.Parser Model.ReadLoop Proofs.SwarSpec
  Proofs.ParserMonoBase Proofs.ParserMonoParts.

Lemma err_neq {A B} e : @Err A e <> Err EEof -> @Err B e <> Err EEof.
Proof. intros H X. apply H. injection X as ->. reflexivity. Qed.

(* ------------------------------------------------------------------ parse_request *)
Theorem request_stable : forall s t, parse_request s <> Err EEof -> parse_request (s ++ t) = parse_request s.
Proof.
  intros s t H. unfold parse_request in *.
  pose proof (parse_method_mono s t) as HM.
  destruct (parse_method s) as [[m r1]|e|f]; cbn [bind] in *.
  2:{ rewrite HM by (eapply err_neq; exact H). reflexivity. }
  2:{ rewrite HM by discriminate. reflexivity. }
  rewrite HM by discriminate. cbn [ext bind]. clear HM.
  pose proof (parse_uri_mono r1 t) as HU.
  destruct (parse_uri r1) as [[u r2]|e|f]; cbn [bind] in *.
  2:{ rewrite HU by (eapply err_neq; exact H). reflexivity. }
  2:{ rewrite HU by discriminate. reflexivity. }
  rewrite HU by discriminate. cbn [ext bind]. clear HU.
  pose proof (parse_version_mono r2 t) as HV.
  destruct (parse_version r2) as [[v r3]|e|f]; cbn [bind] in *.
  2:{ rewrite HV by (eapply err_neq; exact H). reflexivity. }
  2:{ rewrite HV by discriminate. reflexivity. }
  rewrite HV by discriminate. cbn [ext bind]. clear HV.
  destruct r3 as [|c r3]; [exfalso; apply H; reflexivity|].
  cbn [app]. destruct c; try reflexivity.
  destruct r3 as [|d r4]; [exfalso; apply H; reflexivity|].
  cbn [app]. destruct d; try reflexivity.
  pose proof (parse_headers_mono r4 t) as HH.
  destruct (parse_headers r4) as [[hs r5]|e|f]; cbn [bind] in *.
  2:{ rewrite HH by (eapply err_neq; exact H). reflexivity. }
  2:{ rewrite HH by discriminate. reflexivity. }
  rewrite HH by discriminate. cbn [ext bind]. clear HH.
  rewrite offset_of_app. reflexivity.
Qed.

(* ------------------------------------------------------------------ parse_response *)
Lemma digit_at_app s t i : digit_at s i <> Err EEof -> digit_at (s ++ t) i = digit_at s i.
Proof.
  unfold digit_at. destruct (nth_error s i) as [b|] eqn:E; [|intros H; exfalso; apply H; reflexivity].
  intros _. rewrite (nth_app_some _ t _ _ E). reflexivity.
Qed.

Lemma reason_scan_app : forall l t i, reason_scan l i <> Err EEof ->
  reason_scan (l ++ t) i = reason_scan l i /\
  forall k, reason_scan l i = Ok k -> i <= k /\ k - i + 2 <= length l.
Proof.
  induction l as [|c l IH]; intros t i H; [exfalso; apply H; reflexivity|].
  destruct l as [|d r]; [exfalso; apply H; reflexivity|].
  cbn [app]. cbn [reason_scan] in *.
  destruct (Byte.eqb c x0d && Byte.eqb d x0a).
  { split; [reflexivity|]. intros k Hk. injection Hk as <-. cbn [length]. lia. }
  destruct (is_reason_byte c).
  - destruct (IH t (S i) H) as [H1 H2]. split; [exact H1|].
    intros k Hk. specialize (H2 k Hk). cbn [length] in *. lia.
  - split; [reflexivity | discriminate].
Qed.

Lemma parse_response_status_mono : mono parse_response_status.
Proof.
  intros s t H. unfold parse_response_status in *.
  pose proof (digit_at_app s t 0) as H0.
  destruct (digit_at s 0) as [h|e|f]; cbn [bind] in *.
  2:{ rewrite H0 by (eapply err_neq; exact H). reflexivity. }
  2:{ rewrite H0 by discriminate. reflexivity. }
  rewrite H0 by discriminate. cbn [bind]. clear H0.
  pose proof (digit_at_app s t 1) as H1.
  destruct (digit_at s 1) as [d1|e|f]; cbn [bind] in *.
  2:{ rewrite H1 by (eapply err_neq; exact H). reflexivity. }
  2:{ rewrite H1 by discriminate. reflexivity. }
  rewrite H1 by discriminate. cbn [bind]. clear H1.
  pose proof (digit_at_app s t 2) as H2.
  destruct (digit_at s 2) as [d2|e|f]; cbn [bind] in *.
  2:{ rewrite H2 by (eapply err_neq; exact H). reflexivity. }
  2:{ rewrite H2 by discriminate. reflexivity. }
  rewrite H2 by discriminate. cbn [bind]. clear H2.
  destruct (nth_error s 3) as [sp|] eqn:E3; [|exfalso; apply H; reflexivity].
  pose proof (nth_some_lt _ _ _ E3) as L3.
  rewrite (nth_app_some _ t _ _ E3).
  destruct (negb (Byte.eqb sp x20)); [reflexivity|].
  rewrite (skipn_app_le s t 4) by lia.
  set (b := skipn 4 s) in *.
  pose proof (reason_scan_app b t 0) as HR.
  destruct (reason_scan b 0) as [i|e|f]; cbn [bind] in *.
  2:{ destruct HR as [HR _]; [eapply err_neq; exact H|]. rewrite HR. reflexivity. }
  2:{ destruct HR as [HR _]; [discriminate|]. rewrite HR. reflexivity. }
  destruct HR as [HR HL]; [discriminate|]. rewrite HR. cbn [bind].
  destruct (HL i eq_refl) as [_ Li].
  rewrite (firstn_app_le b t i) by lia.
  rewrite (skipn_app_le b t (i + 2)) by lia.
  destruct (str_unchecked (firstn i b)); reflexivity.
Qed.

Theorem response_stable : forall s t, parse_response s <> Err EEof -> parse_response (s ++ t) = parse_response s.
Proof.
  intros s t H. unfold parse_response in *.
  pose proof (parse_version_mono s t) as HV.
  destruct (parse_version s) as [[v r1]|e|f]; cbn [bind] in *.
  2:{ rewrite HV by (eapply err_neq; exact H). reflexivity. }
  2:{ rewrite HV by discriminate. reflexivity. }
  rewrite HV by discriminate. cbn [ext bind]. clear HV.
  destruct r1 as [|sp r2]; [exfalso; apply H; reflexivity|].
  cbn [app]. destruct (negb (Byte.eqb sp x20)); [reflexivity|].
  pose proof (parse_response_status_mono r2 t) as HS.
  destruct (parse_response_status r2) as [[[code reason] r3]|e|f]; cbn [bind] in *.
  2:{ rewrite HS by (eapply err_neq; exact H). reflexivity. }
  2:{ rewrite HS by discriminate. reflexivity. }
  rewrite HS by discriminate. cbn [ext bind]. clear HS.
  pose proof (parse_headers_mono r3 t) as HH.
  destruct (parse_headers r3) as [[hs r4]|e|f]; cbn [bind] in *.
  2:{ rewrite HH by (eapply err_neq; exact H). reflexivity. }
  2:{ rewrite HH by discriminate. reflexivity. }
  rewrite HH by discriminate. cbn [ext bind]. clear HH.
  rewrite offset_of_app. reflexivity.
Qed.

(* ------------------------------------------------------------------ the pinned statements *)
Theorem request_accept_stable : forall s t r, parse_request s = Ok r -> parse_request (s ++ t) = Ok r.
Proof. intros s t r H. rewrite request_stable; [exact H | congruence]. Qed.

Theorem request_reject_stable : forall s t e, parse_request s = Err e -> e <> EEof ->
  exists e', parse_request (s ++ t) = Err e' /\ e' <> EEof.
Proof. intros s t e H He. exists e. split; [|exact He]. rewrite request_stable; [exact H | congruence]. Qed.

Theorem response_accept_stable : forall s t r, parse_response s = Ok r -> parse_response (s ++ t) = Ok r.
Proof. intros s t r H. rewrite response_stable; [exact H | congruence]. Qed.

Theorem response_reject_stable : forall s t e, parse_response s = Err e -> e <> EEof ->
  exists e', parse_response (s ++ t) = Err e' /\ e' <> EEof.
Proof. intros s t e H He. exists e. split; [|exact He]. rewrite response_stable; [exact H | congruence]. Qed.

(* ------------------------------------------------------------------ segmentation *)
Lemma reparse_spec {A} (P : bytes -> res A) :
  (forall s t, P s <> Err EEof -> P (s ++ t) = P s) ->
  forall segs acc, P acc = Err EEof -> reparse P acc segs = verdict_of (P (acc ++ concat segs)).
Proof.
  intros HP. induction segs as [|g rest IH]; intros acc Hacc.
  - cbn [reparse concat]. rewrite app_nil_r, Hacc. reflexivity.
  - cbn [reparse concat]. rewrite app_assoc.
    destruct (P (acc ++ g)) as [a|e|f] eqn:E.
    + rewrite HP by congruence. rewrite E. reflexivity.
    + destruct e; try (rewrite HP by congruence; rewrite E; reflexivity).
      cbn [verdict_of]. apply IH. exact E.
    + rewrite HP by congruence. rewrite E. reflexivity.
Qed.

Theorem segmentation_independent : forall segs,
  final_request_verdict segs = verdict_of (parse_request (concat segs)) /\
  final_response_verdict segs = verdict_of (parse_response (concat segs)).
Proof.
  intros segs. unfold final_request_verdict, final_response_verdict. split.
  - apply (reparse_spec parse_request request_stable segs []). reflexivity.
  - apply (reparse_spec parse_response response_stable segs []). reflexivity.
Qed.
