(* C06, BufRead face: the body reader model refines the strict recogniser. *)
From KV Require Import Lib.Bytes Lib.Utf8 Model.Body Spec.ChunkedSpec Proofs.BodyBase.

Local Open Scope N_scope.

(* ------------------------------------------------------------------ fixed length *)
Lemma fixed_bufread_all_valid : forall amts r acc d rest,
  take_n (f_remaining r) (src_rest (f_src r)) = Some (d, rest) ->
  Forall (fun k => 0 < k) amts -> (length d < length amts)%nat ->
  fst (bufread_all (BFixed r) amts acc) = (acc ++ d, AtEof).
Proof.
  induction amts as [|a amts IH]; intros r acc d rest Ht Hpos Hlen; [cbn [length] in Hlen; lia|].
  inversion Hpos as [|k' sz' Ha Hpos']. subst k' sz'.
  destruct (N.eq_dec (f_remaining r) 0) as [E|E].
  - rewrite E, take_n_0 in Ht. inversion Ht. subst d rest.
    rewrite (bufread_all_eof _ a amts acc (BFixed r)).
    + cbn [fst]. rewrite app_nil_r. reflexivity.
    + cbn [body_fill_buf]. unfold fixed_fill_buf. rewrite E. reflexivity.
  - destruct (fill_buf_spec (f_src r)) as [F1 [F2 F3]].
    pose proof (fixed_fill_buf_eq r E) as Hff.
    destruct (bbuf (fill_buf (f_src r))) as [|x b] eqn:Eb.
    + rewrite (F3 eq_refl), take_n_nil in Ht by exact E. discriminate.
    + rewrite <- Eb in Hff.
      assert (Hne : bbuf (fill_buf (f_src r)) <> []) by (rewrite Eb; discriminate).
      destruct (bufread_piece a (f_remaining r) _ Ha ltac:(lia) Hne) as [P1 [P2 [P3 [t P4]]]].
      cbv zeta in P1, P2, P3, P4.
      rewrite (bufread_all_more _ a amts acc (firstnN (f_remaining r) (bbuf (fill_buf (f_src r)))) (BFixed {| f_src := fill_buf (f_src r); f_remaining := f_remaining r |}));
        [|cbn [body_fill_buf]; rewrite Hff; reflexivity|exact P1].
      remember (firstnN a (firstnN (f_remaining r) (bbuf (fill_buf (f_src r))))) as got eqn:Egot.
      cbn [body_consume]. unfold fixed_consume. cbn [f_src f_remaining].
      destruct (consume_prefix (fill_buf (f_src r)) got t P4) as [C1 C2].
      rewrite F1 in C1. rewrite C1, take_n_app in Ht by exact P3.
      destruct (take_n (f_remaining r - lenN got) (src_rest (consume (lenN got) (fill_buf (f_src r)))))
        as [[d' a']|] eqn:Et; [|discriminate].
      inversion Ht. subst d a'.
      rewrite (IH _ (acc ++ got) d' rest).
      * rewrite app_assoc. reflexivity.
      * cbn [f_src f_remaining]. exact Et.
      * exact Hpos'.
      * rewrite app_length in Hlen. cbn [length] in Hlen.
        destruct got; [congruence|]. cbn [length] in Hlen. lia.
Qed.

Lemma fixed_bufread_valid : forall lo st amts n p rest,
  spec_fixed n (lo ++ concat st) = Valid p rest -> Forall (fun k => 0 < k) amts ->
  (length p < length amts)%nat ->
  fst (bufread_all (new_fixed lo st n) amts []) = (p, AtEof).
Proof.
  intros lo st amts n p rest Hs Hpos Hlen. unfold spec_fixed in Hs.
  destruct (take_n n (lo ++ concat st)) as [[d a]|] eqn:Et; [|discriminate]. inversion Hs. subst d a.
  unfold new_fixed. rewrite (fixed_bufread_all_valid amts _ [] p rest); [reflexivity| |exact Hpos|exact Hlen].
  cbn [f_remaining f_src]. rewrite src_rest_mk. exact Et.
Qed.

Lemma fixed_bufread_all_invalid : forall amts r acc,
  lenN (src_rest (f_src r)) < f_remaining r -> Forall (fun k => 0 < k) amts ->
  snd (fst (bufread_all (BFixed r) amts acc)) <> AtEof.
Proof.
  induction amts as [|a amts IH]; intros r acc Hlt Hpos; [cbn; discriminate|].
  inversion Hpos as [|k' sz' Ha Hpos']. subst k' sz'.
  destruct (N.eq_dec (f_remaining r) 0) as [E|E]; [lia|].
  destruct (fill_buf_spec (f_src r)) as [F1 [F2 F3]].
  pose proof (fixed_fill_buf_eq r E) as Hff.
  destruct (bbuf (fill_buf (f_src r))) as [|x b] eqn:Eb.
  - rewrite (bufread_all_err _ a amts acc EUnexpectedEof (BFixed {| f_src := fill_buf (f_src r); f_remaining := f_remaining r |}));
      [cbn [fst snd]; discriminate|cbn [body_fill_buf]; rewrite Hff; reflexivity].
  - rewrite <- Eb in Hff.
    assert (Hne : bbuf (fill_buf (f_src r)) <> []) by (rewrite Eb; discriminate).
    destruct (bufread_piece a (f_remaining r) _ Ha ltac:(lia) Hne) as [P1 [P2 [P3 [t P4]]]].
    cbv zeta in P1, P2, P3, P4.
    rewrite (bufread_all_more _ a amts acc (firstnN (f_remaining r) (bbuf (fill_buf (f_src r)))) (BFixed {| f_src := fill_buf (f_src r); f_remaining := f_remaining r |}));
      [|cbn [body_fill_buf]; rewrite Hff; reflexivity|exact P1].
    remember (firstnN a (firstnN (f_remaining r) (bbuf (fill_buf (f_src r))))) as got eqn:Egot.
    cbn [body_consume]. unfold fixed_consume. cbn [f_src f_remaining].
    destruct (consume_prefix (fill_buf (f_src r)) got t P4) as [C1 C2].
    rewrite F1 in C1. apply IH; [|exact Hpos'].
    cbn [f_src f_remaining]. rewrite C1, lenN_app in Hlt. lia.
Qed.

Lemma fixed_bufread_invalid : forall lo st amts n w,
  spec_fixed n (lo ++ concat st) = Invalid w -> Forall (fun k => 0 < k) amts ->
  snd (fst (bufread_all (new_fixed lo st n) amts [])) <> AtEof.
Proof.
  intros lo st amts n w Hs Hpos. unfold spec_fixed in Hs.
  destruct (take_n n (lo ++ concat st)) as [[d a]|] eqn:Et; [discriminate|].
  apply take_n_none in Et. unfold new_fixed. apply fixed_bufread_all_invalid; [|exact Hpos].
  cbn [f_remaining f_src]. rewrite src_rest_mk. exact Et.
Qed.
