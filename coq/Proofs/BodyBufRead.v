(* C06, BufRead face: the body reader model refines the strict recogniser. *)
From KV Require Import Lib.Bytes Lib.Utf8 Model.Body Spec.ChunkedSpec Proofs.BodyBase Proofs.BodyBaseChunk.

Local Open Scope N_scope.

(* ------------------------------------------------------------------ fixed length *)
Lemma fixed_bufread_all_valid : forall amts r acc d rest,
  take_n (f_remaining r) (reach (f_src r)) = Some (d, rest) ->
  Forall (fun k => 0 < k) amts -> (length d < length amts)%nat ->
  fst (bufread_all (BFixed r) amts acc) = (acc ++ d, AtEof).
Proof.
  induction amts as [|a amts IH]; intros r acc d rest Ht Hpos Hlen; [cbn [length] in Hlen; lia|].
  inversion Hpos as [|k' sz' Ha Hpos']. subst k' sz'.
  destruct (N.eq_dec (f_remaining r) 0) as [E|E].
  - rewrite E, take_n_0 in Ht. inversion Ht. subst d rest.
    rewrite (bufread_all_eof _ a amts acc (BFixed r)).
    + cbn [fst]. rewrite app_nil_r. reflexivity.
    + cbn [body_fill_buf]. unfold fixed_fill_buf. rewrite E. reflexivity.
  - destruct (fill_buf_spec (f_src r)) as [F1 [F2 F3]].
    pose proof (fixed_fill_buf_eq r E) as Hff.
    destruct (bbuf (fill_buf (f_src r))) as [|x b] eqn:Eb.
    + rewrite (F3 eq_refl), take_n_nil in Ht by exact E. discriminate.
    + rewrite <- Eb in Hff.
      assert (Hne : bbuf (fill_buf (f_src r)) <> []) by (rewrite Eb; discriminate).
      destruct (bufread_piece a (f_remaining r) _ Ha ltac:(lia) Hne) as [P1 [P2 [P3 [t P4]]]].
      cbv zeta in P1, P2, P3, P4.
      rewrite (bufread_all_more _ a amts acc (firstnN (f_remaining r) (bbuf (fill_buf (f_src r)))) (BFixed {| f_src := fill_buf (f_src r); f_remaining := f_remaining r |}));
        [|cbn [body_fill_buf]; rewrite Hff; reflexivity|exact P1].
      remember (firstnN a (firstnN (f_remaining r) (bbuf (fill_buf (f_src r))))) as got eqn:Egot.
      cbn [body_consume]. unfold fixed_consume. cbn [f_src f_remaining].
      destruct (consume_prefix (fill_buf (f_src r)) got t P4) as [C1 C2].
      rewrite F1 in C1. rewrite C1, take_n_app in Ht by exact P3.
      destruct (take_n (f_remaining r - lenN got) (reach (consume (lenN got) (fill_buf (f_src r)))))
        as [[d' a']|] eqn:Et; [|discriminate].
      inversion Ht. subst d a'.
      rewrite (IH _ (acc ++ got) d' rest).
      * rewrite app_assoc. reflexivity.
      * cbn [f_src f_remaining]. exact Et.
      * exact Hpos'.
      * rewrite app_length in Hlen. cbn [length] in Hlen.
        destruct got; [congruence|]. cbn [length] in Hlen. lia.
Qed.

Lemma fixed_bufread_valid : forall lo st amts n p rest,
  spec_fixed n (lo ++ concat st) = Valid p rest -> Forall (fun k => 0 < k) amts ->
  (length p < length amts)%nat ->
  fst (bufread_all (new_fixed lo st n) amts []) = (p, AtEof).
Proof.
  intros lo st amts n p rest Hs Hpos Hlen. unfold spec_fixed in Hs.
  destruct (take_n n (lo ++ concat st)) as [[d a]|] eqn:Et; [|discriminate]. inversion Hs. subst d a.
  unfold new_fixed. rewrite (fixed_bufread_all_valid amts _ [] p []); [reflexivity| |exact Hpos|exact Hlen].
  cbn [f_remaining f_src]. rewrite reach_mk_take. exact (take_n_firstnN _ _ _ _ Et).
Qed.

Lemma fixed_bufread_all_invalid : forall amts r acc,
  lenN (reach (f_src r)) < f_remaining r -> Forall (fun k => 0 < k) amts ->
  snd (fst (bufread_all (BFixed r) amts acc)) <> AtEof.
Proof.
  induction amts as [|a amts IH]; intros r acc Hlt Hpos; [cbn; discriminate|].
  inversion Hpos as [|k' sz' Ha Hpos']. subst k' sz'.
  destruct (N.eq_dec (f_remaining r) 0) as [E|E]; [lia|].
  destruct (fill_buf_spec (f_src r)) as [F1 [F2 F3]].
  pose proof (fixed_fill_buf_eq r E) as Hff.
  destruct (bbuf (fill_buf (f_src r))) as [|x b] eqn:Eb.
  - rewrite (bufread_all_err _ a amts acc EUnexpectedEof (BFixed {| f_src := fill_buf (f_src r); f_remaining := f_remaining r |}));
      [cbn [fst snd]; discriminate|cbn [body_fill_buf]; rewrite Hff; reflexivity].
  - rewrite <- Eb in Hff.
    assert (Hne : bbuf (fill_buf (f_src r)) <> []) by (rewrite Eb; discriminate).
    destruct (bufread_piece a (f_remaining r) _ Ha ltac:(lia) Hne) as [P1 [P2 [P3 [t P4]]]].
    cbv zeta in P1, P2, P3, P4.
    rewrite (bufread_all_more _ a amts acc (firstnN (f_remaining r) (bbuf (fill_buf (f_src r)))) (BFixed {| f_src := fill_buf (f_src r); f_remaining := f_remaining r |}));
      [|cbn [body_fill_buf]; rewrite Hff; reflexivity|exact P1].
    remember (firstnN a (firstnN (f_remaining r) (bbuf (fill_buf (f_src r))))) as got eqn:Egot.
    cbn [body_consume]. unfold fixed_consume. cbn [f_src f_remaining].
    destruct (consume_prefix (fill_buf (f_src r)) got t P4) as [C1 C2].
    rewrite F1 in C1. apply IH; [|exact Hpos'].
    cbn [f_src f_remaining]. rewrite C1, lenN_app in Hlt. lia.
Qed.

Lemma fixed_bufread_invalid : forall lo st amts n w,
  spec_fixed n (lo ++ concat st) = Invalid w -> Forall (fun k => 0 < k) amts ->
  snd (fst (bufread_all (new_fixed lo st n) amts [])) <> AtEof.
Proof.
  intros lo st amts n w Hs Hpos. unfold spec_fixed in Hs.
  destruct (take_n n (lo ++ concat st)) as [[d a]|] eqn:Et; [discriminate|].
  apply take_n_none in Et. unfold new_fixed. apply fixed_bufread_all_invalid; [|exact Hpos].
  cbn [f_remaining f_src]. rewrite reach_mk_take.
  pose proof (lenN_firstnN_le_len n (lo ++ concat st)) as Hle. lia.
Qed.

(* ------------------------------------------------------------------ chunked *)
Lemma chunked_fill_buf_spec c acc D : CB c -> st_dec c acc = D -> D <> Unspecified ->
  (exists e c', chunked_fill_buf c = RErr e c' /\ exists w, D = Invalid w) \/
  (exists c', chunked_fill_buf c = ROk [] c' /\ c_state c' = CDone /\ st_dec c' acc = D /\ CB c') \/
  (exists c', chunked_fill_buf c = ROk (firstnN (c_remaining c') (bbuf (c_src c'))) c' /\
              bbuf (c_src c') <> [] /\ c_state c' = CData /\ c_remaining c' <> 0 /\
              st_dec c' acc = D /\ CB c').
Proof.
  intros Hb HD HU. unfold chunked_fill_buf.
  pose proof (advance_ok c acc Hb) as Hadv. rewrite HD in Hadv.
  destruct (step_ok_inv _ _ _ _ Hadv HU) as [[e [c' [He Hw]]]|[c1 [Hc1 [Hd1 [Hb1 Hr1]]]]].
  - left. rewrite He. exists e, c'. split; [reflexivity|exact Hw].
  - rewrite Hc1. destruct Hr1 as [Hdone|[Hdata Hrem]].
    + rewrite Hdone. right. left. exists c1. repeat split; assumption.
    + rewrite Hdata.
      destruct (fill_buf_spec (c_src c1)) as [F1 [F2 F3]].
      set (c2 := {| c_src := fill_buf (c_src c1); c_state := CData; c_remaining := c_remaining c1 |}).
      assert (Hd2 : st_dec c2 acc = D).
      { rewrite <- Hd1. unfold st_dec, c2. cbn [c_src c_state c_remaining]. rewrite Hdata, F1. reflexivity. }
      assert (Hb2 : CB c2) by (unfold CB, c2; cbn [c_src]; apply fill_buf_Bound; exact Hb1).
      destruct (bbuf (fill_buf (c_src c1))) as [|x b] eqn:Eb.
      * left. eexists. eexists. split; [reflexivity|]. exists Truncated.
        rewrite <- Hd1. apply data_eof; [exact Hdata|exact Hrem|exact (F3 eq_refl)].
      * right. right. exists c2. unfold c2 at 2 3 4 5. cbn [c_src c_state c_remaining]. rewrite Eb.
        split; [reflexivity|]. split; [discriminate|]. repeat split; assumption.
Qed.

(* one fill_buf / consume round in the middle of a chunk *)
Lemma chunked_consume_step c acc a : 0 < a -> CB c -> bbuf (c_src c) <> [] -> c_state c = CData ->
  c_remaining c <> 0 ->
  let avail := firstnN (c_remaining c) (bbuf (c_src c)) in
  let got := firstnN a avail in
  let c' := chunked_consume (lenN got) c in
  avail <> [] /\ got <> [] /\ st_dec c' (acc ++ got) = st_dec c acc /\ CB c'.
Proof.
  intros Ha Hb Hne Hst Hrem avail got c'.
  destruct (bufread_piece a (c_remaining c) _ Ha ltac:(lia) Hne) as [P1 [P2 [P3 [t P4]]]].
  cbv zeta in P1, P2, P3, P4. fold avail in P1, P2, P3, P4. fold got in P2, P3, P4.
  destruct (consume_prefix (c_src c) got t P4) as [C1 C2].
  split; [exact P1|]. split; [exact P2|]. split.
  - apply data_step; [exact Hst|unfold c', chunked_consume; cbn [c_state]; exact Hst|exact C1|exact P3|reflexivity].
  - unfold CB, c', chunked_consume. cbn [c_src]. apply (Bound_split (c_src c) _ got); assumption.
Qed.

Lemma chunked_bufread_all_valid : forall amts c acc p rest q, CB c ->
  st_dec c acc = Valid p rest -> p = acc ++ q ->
  Forall (fun k => 0 < k) amts -> (length q < length amts)%nat ->
  fst (bufread_all (BChunked c) amts acc) = (p, AtEof).
Proof.
  induction amts as [|a amts IH]; intros c acc p rest q Hb HD Hp Hpos Hlen; [cbn [length] in Hlen; lia|].
  inversion Hpos as [|k' sz' Ha Hpos']. subst k' sz'.
  destruct (chunked_fill_buf_spec c acc _ Hb HD ltac:(discriminate))
    as [[e [c' [He [w Hw]]]]|[[c' [Ho [Hdone [Hd' Hb']]]]|[c' [Ho [Hne [Hst [Hrem [Hd' Hb']]]]]]]]; [discriminate| |].
  - rewrite (bufread_all_eof _ a amts acc (BChunked c')); [|cbn [body_fill_buf]; rewrite Ho; reflexivity].
    rewrite (done_dec c' _ Hdone) in Hd'. inversion Hd'. reflexivity.
  - destruct (chunked_consume_step c' acc a Ha Hb' Hne Hst Hrem) as [P1 [P2 [P3 P4]]].
    cbv zeta in P1, P2, P3, P4.
    rewrite (bufread_all_more _ a amts acc (firstnN (c_remaining c') (bbuf (c_src c'))) (BChunked c'));
      [|cbn [body_fill_buf]; rewrite Ho; reflexivity|exact P1].
    cbn [body_consume].
    remember (firstnN a (firstnN (c_remaining c') (bbuf (c_src c')))) as got eqn:Egot.
    rewrite Hd' in P3.
    destruct (st_dec_prefix _ _ _ _ P3) as [q' Hq'].
    apply (IH _ (acc ++ got) p rest q' P4 P3 Hq' Hpos').
    assert (Hqq : q = got ++ q').
    { apply (app_inv_head acc). rewrite <- Hp, Hq', app_assoc. reflexivity. }
    rewrite Hqq, app_length in Hlen. destruct got; [congruence|]. cbn [length] in Hlen. lia.
Qed.

Lemma chunked_bufread_valid : forall lo st amts p rest,
  spec_decode (lo ++ concat st) = Valid p rest -> Forall (fun k => 0 < k) amts ->
  (length p < length amts)%nat ->
  fst (bufread_all (new_chunked lo st) amts []) = (p, AtEof).
Proof.
  intros lo st amts p rest Hs Hpos Hlen. unfold new_chunked.
  apply (chunked_bufread_all_valid amts _ [] p rest p); try assumption.
  - apply Bound_mk.
  - reflexivity.
Qed.

Lemma chunked_bufread_all_invalid : forall amts c acc w, CB c ->
  st_dec c acc = Invalid w -> Forall (fun k => 0 < k) amts ->
  snd (fst (bufread_all (BChunked c) amts acc)) <> AtEof.
Proof.
  induction amts as [|a amts IH]; intros c acc w Hb HD Hpos; [cbn; discriminate|].
  inversion Hpos as [|k' sz' Ha Hpos']. subst k' sz'.
  destruct (chunked_fill_buf_spec c acc _ Hb HD ltac:(discriminate))
    as [[e [c' [He _]]]|[[c' [Ho [Hdone [Hd' Hb']]]]|[c' [Ho [Hne [Hst [Hrem [Hd' Hb']]]]]]]].
  - rewrite (bufread_all_err _ a amts acc e (BChunked c')); [|cbn [body_fill_buf]; rewrite He; reflexivity].
    cbn [fst snd]. discriminate.
  - exfalso. rewrite (done_dec c' _ Hdone) in Hd'. discriminate.
  - destruct (chunked_consume_step c' acc a Ha Hb' Hne Hst Hrem) as [P1 [P2 [P3 P4]]].
    cbv zeta in P1, P2, P3, P4.
    rewrite (bufread_all_more _ a amts acc (firstnN (c_remaining c') (bbuf (c_src c'))) (BChunked c'));
      [|cbn [body_fill_buf]; rewrite Ho; reflexivity|exact P1].
    cbn [body_consume]. rewrite Hd' in P3.
    exact (IH _ _ w P4 P3 Hpos').
Qed.

Lemma chunked_bufread_invalid : forall lo st amts w,
  spec_decode (lo ++ concat st) = Invalid w -> Forall (fun k => 0 < k) amts ->
  snd (fst (bufread_all (new_chunked lo st) amts [])) <> AtEof.
Proof.
  intros lo st amts w Hs Hpos. unfold new_chunked.
  apply (chunked_bufread_all_invalid amts _ [] w); try assumption. apply Bound_mk.
Qed.
