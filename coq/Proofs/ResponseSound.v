(* Soundness of the RESPONSE-head parser against the strict recogniser [strict_status_head]
   (Spec/StatusGrammar.v), and exactness of the recogniser itself (it consumes precisely the strict shape
   "HTTP/1." ("0"|"1") SP 3DIGIT SP reason CRLF *( name ":" value CRLF ) CRLF, nothing skipped).
   The header-section lemmas are those of Proofs/ParserSound.v: [parse_headers] is shared by
   [parse_request] and [parse_response]. *)
From KV Require Import Lib.Bytes Model.Headers Model.Parser Spec.HttpGrammar Spec.StatusGrammar
  Proofs.ParserSound.

(* ------------------------------------------------------------------ byte classes, digits *)
Lemma rs_reason_byte_char b : is_reason_byte b = true -> is_reason_char b = true.
Proof. destruct b; vm_compute; intros H; (reflexivity || discriminate H). Qed.

Lemma rs_reason_char_nlf b : is_reason_char b = true -> negb (Byte.eqb b x0a) = true.
Proof. destruct b; vm_compute; intros H; (reflexivity || discriminate H). Qed.

Lemma rs_digit_val b : is_digit b = true -> digit_val b = Some (b2n b - 48)%N.
Proof. destruct b; vm_compute; intros H; (reflexivity || discriminate H). Qed.

Lemma rs_digit_val_inv a x : digit_val a = Some x -> (x < 10)%N /\ digit_byte x = a.
Proof.
  intros H. destruct a; try discriminate H; inversion H; subst x; split; vm_compute; reflexivity.
Qed.

Lemma rs_code_digits x y z : (x < 10)%N -> (y < 10)%N -> (z < 10)%N ->
  code_digits (x * 100 + y * 10 + z) = [digit_byte x; digit_byte y; digit_byte z] /\
  (x * 100 + y * 10 + z < 1000)%N.
Proof.
  intros Hx Hy Hz. unfold code_digits.
  assert (E1 : ((x * 100 + y * 10 + z) / 100 = x)%N).
  { symmetry. apply (N.div_unique _ 100%N x (y * 10 + z)%N); lia. }
  assert (E3 : ((x * 100 + y * 10 + z) mod 10 = z)%N).
  { symmetry. apply (N.mod_unique _ 10%N (x * 10 + y)%N z); lia. }
  assert (E2a : ((x * 100 + y * 10 + z) / 10 = x * 10 + y)%N).
  { symmetry. apply (N.div_unique _ 10%N (x * 10 + y)%N z); lia. }
  assert (E2 : ((x * 10 + y) mod 10 = y)%N).
  { symmetry. apply (N.mod_unique _ 10%N x y); lia. }
  rewrite E1, E3, E2a, E2. split; [reflexivity|lia].
Qed.

Lemma rs_digit_at buf i n : digit_at buf i = Ok n ->
  exists b, nth_error buf i = Some b /\ digit_val b = Some n.
Proof.
  unfold digit_at. intros H. destruct (nth_error buf i) as [b|]; [|discriminate H].
  destruct (is_digit b) eqn:Ed; [|discriminate H]. inversion H; subst n.
  exists b. split; [reflexivity|]. apply rs_digit_val. exact Ed.
Qed.

(* ------------------------------------------------------------------ one CRLF-terminated line *)
Lemma rs_take_line_app x y :
  forallb (fun b => negb (Byte.eqb b x0a)) x = true -> take_line (x ++ x0d :: x0a :: y) = Some (x, y).
Proof.
  intros Hx. rewrite take_line_unfold. unfold LF.
  change (x ++ x0d :: x0a :: y) with (x ++ [x0d] ++ x0a :: y). rewrite app_assoc.
  rewrite (ps_split_at_nosep (fun b => negb (Byte.eqb b x0a)) x0a).
  - rewrite rev_unit, rev_involutive. reflexivity.
  - intros b Hb. apply negb_true_iff in Hb. exact Hb.
  - rewrite forallb_app, Hx. reflexivity.
Qed.

(* ------------------------------------------------------------------ the reason phrase *)
Lemma rs_reason_scan_cons c d q i :
  reason_scan (c :: d :: q) i =
  if Byte.eqb c x0d && Byte.eqb d x0a then Ok i
  else if is_reason_byte c then reason_scan (d :: q) (S i) else Err EStatus.
Proof. reflexivity. Qed.

Lemma rs_reason_scan_sound : forall l k i, reason_scan l k = Ok i ->
  exists j, i = k + j /\ forallb is_reason_byte (firstn j l) = true /\
            skipn j l = x0d :: x0a :: skipn (j + 2) l.
Proof.
  induction l as [|c r IH]; intros k i H; [discriminate H|].
  destruct r as [|d q]; [discriminate H|]. rewrite rs_reason_scan_cons in H.
  destruct (Byte.eqb c x0d && Byte.eqb d x0a) eqn:Ecr.
  { apply andb_true_iff in Ecr. destruct Ecr as [Ec Ed].
    apply byte_eqb_eq in Ec. apply byte_eqb_eq in Ed. subst c d. inversion H; subst i.
    exists 0. split; [lia|]. split; reflexivity. }
  destruct (is_reason_byte c) eqn:Hc; [|discriminate H].
  apply IH in H. destruct H as [j [Hi [Hall Hsk]]].
  exists (S j). split; [lia|]. split.
  - cbn [firstn forallb]. rewrite Hc, Hall. reflexivity.
  - cbn [Nat.add skipn]. exact Hsk.
Qed.

(* ------------------------------------------------------------------ the status line *)
Lemma parse_response_status_sound r2 code reason r3 :
  parse_response_status r2 = Ok (code, reason, r3) ->
  exists a b c x y z,
    r2 = a :: b :: c :: x20 :: (reason ++ x0d :: x0a :: r3) /\
    digit_val a = Some x /\ digit_val b = Some y /\ digit_val c = Some z /\
    code = (x * 100 + y * 10 + z)%N /\
    forallb is_reason_char reason = true.
Proof.
  unfold parse_response_status. intros H.
  destruct (digit_at r2 0) as [x| |] eqn:D0; cbn [bind] in H; try discriminate H.
  destruct (digit_at r2 1) as [y| |] eqn:D1; cbn [bind] in H; try discriminate H.
  destruct (digit_at r2 2) as [z| |] eqn:D2; cbn [bind] in H; try discriminate H.
  destruct (nth_error r2 3) as [sp|] eqn:E3; [|discriminate H].
  destruct (negb (Byte.eqb sp x20)) eqn:Esp; [discriminate H|].
  apply negb_false_iff in Esp. apply byte_eqb_eq in Esp. subst sp. cbv zeta in H.
  destruct (reason_scan (skipn 4 r2) 0) as [i| |] eqn:Er; cbn [bind] in H; try discriminate H.
  destruct (str_unchecked (firstn i (skipn 4 r2))) as [s'| |] eqn:Eu; cbn [bind] in H; try discriminate H.
  apply ps_str_unchecked_inv in Eu. inversion H; subst code reason r3. clear H.
  apply rs_digit_at in D0. destruct D0 as [a [Na Ha]].
  apply rs_digit_at in D1. destruct D1 as [b [Nb Hb]].
  apply rs_digit_at in D2. destruct D2 as [c [Nc Hc]].
  destruct r2 as [|a' r2]; [discriminate Na|]. cbn [nth_error] in Na, Nb, Nc, E3.
  destruct r2 as [|b' r2]; [discriminate Nb|]. cbn [nth_error] in Nb, Nc, E3.
  destruct r2 as [|c' r2]; [discriminate Nc|]. cbn [nth_error] in Nc, E3.
  destruct r2 as [|sp r2]; [discriminate E3|]. cbn [nth_error] in E3.
  inversion Na; inversion Nb; inversion Nc; inversion E3; subst a' b' c' sp.
  cbn [skipn] in Er, Eu |- *.
  apply rs_reason_scan_sound in Er. destruct Er as [j [Hi [Hall Hsk]]]. cbn [Nat.add] in Hi. subst j.
  exists a, b, c, x, y, z. subst s'.
  split.
  - rewrite <- Hsk. rewrite firstn_skipn. reflexivity.
  - repeat (split; [assumption || reflexivity|]).
    apply (ps_forallb_impl is_reason_byte is_reason_char); [exact rs_reason_byte_char | exact Hall].
Qed.

(* ------------------------------------------------------------------ response_sound *)
Theorem response_sound : forall s r, parse_response s = Ok r ->
  exists sh, strict_status_head s = Some (sh, r_offset r) /\
    r_version r = (if ss_minor sh then 1 else 0)%N /\
    r_code r = ss_code sh /\
    r_reason r = ss_reason sh /\
    r_hdrs r = headers_of (sfield_pairs (ss_fields sh)).
Proof.
  intros s r H. unfold parse_response in H.
  destruct (parse_version s) as [[v r1]| |] eqn:Ev; cbn [bind] in H; try discriminate H.
  destruct r1 as [|sp r2]; [discriminate H|].
  destruct (negb (Byte.eqb sp x20)) eqn:Esp; [discriminate H|].
  apply negb_false_iff in Esp. apply byte_eqb_eq in Esp. subst sp.
  destruct (parse_response_status r2) as [[[code reason] r3]| |] eqn:Est; cbn [bind] in H; try discriminate H.
  destruct (parse_headers r3) as [[hs r4]| |] eqn:Eh; cbn [bind] in H; try discriminate H.
  unfold offset_of in H. destruct (Nat.leb (length r4) (length s)); cbn [bind] in H; [|discriminate H].
  inversion H; subst r. clear H. cbn [r_offset r_version r_code r_reason r_hdrs].
  apply parse_version_sound in Ev. destruct Ev as [d [Hv1 Hv2]].
  apply parse_response_status_sound in Est.
  destruct Est as [a [b [c [x [y [z [Hr2 [Ha [Hb [Hc [Hcode Hreason]]]]]]]]]]]. subst r2 code.
  unfold parse_headers in Eh. apply parse_headers_f_sound in Eh. destruct Eh as [fs [Hf1 Hf2]].
  assert (Hline : take_line (reason ++ x0d :: x0a :: r3) = Some (reason, r3)).
  { apply rs_take_line_app. apply (ps_forallb_impl is_reason_char); [exact rs_reason_char_nlf | exact Hreason]. }
  unfold strict_status_head, SP. rewrite Hv1, (ps_beqb_refl x20). rewrite Ha, Hb, Hc, Hline, Hreason, Hf1.
  destruct Hv2 as [[Hd Hv]|[Hd Hv]]; subst d v;
    (eexists; split; [reflexivity|]); cbn [ss_minor ss_code ss_reason ss_fields]; repeat split; exact Hf2.
Qed.

(* ------------------------------------------------------------------ strict_status_exact *)
Lemma rs_r1_match {A} (r1 : bytes) (F : byte -> byte -> byte -> byte -> byte -> byte -> bytes -> option A) x :
  match r1 with v :: sp1 :: a :: b :: c :: sp2 :: r2 => F v sp1 a b c sp2 r2 | _ => None end = Some x ->
  exists v sp1 a b c sp2 r2, r1 = v :: sp1 :: a :: b :: c :: sp2 :: r2 /\ F v sp1 a b c sp2 r2 = Some x.
Proof.
  destruct r1 as [|v r]; intros H; [discriminate H|].
  destruct r as [|sp1 r]; [discriminate H|]. destruct r as [|a r]; [discriminate H|].
  destruct r as [|b r]; [discriminate H|]. destruct r as [|c r]; [discriminate H|].
  destruct r as [|sp2 r]; [discriminate H|].
  exists v, sp1, a, b, c, sp2, r. split; [reflexivity|exact H].
Qed.

Theorem strict_status_exact : forall s sh n, strict_status_head s = Some (sh, n) ->
  firstn n s = bs "HTTP/1." ++ [if ss_minor sh then x31 else x30] ++ [x20] ++ code_digits (ss_code sh) ++ [x20] ++
               ss_reason sh ++ [x0d; x0a] ++
               flat_map (fun f => s_name f ++ [x3a] ++ s_raw f ++ [x0d; x0a]) (ss_fields sh) ++ [x0d; x0a]
  /\ n <= length s
  /\ (ss_code sh < 1000)%N /\ forallb is_reason_char (ss_reason sh) = true.
Proof.
  intros s sh n H. unfold strict_status_head, SP in H.
  destruct (strip_prefix (bs "HTTP/1.") s) as [r1|] eqn:E1; [|discriminate H].
  apply rs_r1_match in H. destruct H as [v [sp1 [a [b [c [sp2 [r2 [Hr1 H]]]]]]]]. subst r1.
  destruct ((Byte.eqb v x31 || Byte.eqb v x30) && Byte.eqb sp1 x20 && Byte.eqb sp2 x20) eqn:Ec; [|discriminate H].
  apply andb_true_iff in Ec. destruct Ec as [Ec Esp2]. apply andb_true_iff in Ec. destruct Ec as [Ed Esp1].
  apply byte_eqb_eq in Esp1. apply byte_eqb_eq in Esp2. subst sp1 sp2.
  destruct (digit_val a) as [x|] eqn:Ha; [|discriminate H].
  destruct (digit_val b) as [y|] eqn:Hb; [|discriminate H].
  destruct (digit_val c) as [z|] eqn:Hc; [|discriminate H].
  destruct (take_line r2) as [[reason r3]|] eqn:Et; [|discriminate H].
  destruct (forallb is_reason_char reason) eqn:Hreason; [|discriminate H].
  destruct (strict_fields (S (length r3)) r3) as [[fs rest]|] eqn:Ef; [|discriminate H].
  inversion H; subst sh n. clear H. cbn [ss_minor ss_code ss_reason ss_fields].
  apply ps_strip_prefix_inv in E1. apply ps_take_line_inv in Et. apply ps_strict_fields_exact in Ef.
  apply rs_digit_val_inv in Ha. destruct Ha as [Hx Ea].
  apply rs_digit_val_inv in Hb. destruct Hb as [Hy Eb].
  apply rs_digit_val_inv in Hc. destruct Hc as [Hz Ec].
  destruct (rs_code_digits x y z Hx Hy Hz) as [Edig Hlt]. rewrite Edig, Ea, Eb, Ec.
  assert (Hd : (if Byte.eqb v x31 then x31 else x30) = v).
  { destruct (Byte.eqb v x31) eqn:E31; [apply byte_eqb_eq in E31; congruence|].
    cbn [orb] in Ed. apply byte_eqb_eq in Ed. congruence. }
  rewrite Hd.
  set (consumed := bs "HTTP/1." ++ [v] ++ [x20] ++ [a; b; c] ++ [x20] ++ reason ++ [x0d; x0a] ++
                   flat_map (fun f => s_name f ++ [x3a] ++ s_raw f ++ [x0d; x0a]) fs ++ [x0d; x0a]).
  assert (Hs : s = consumed ++ rest).
  { unfold consumed. subst s r2 r3. unfold render_sfield.
    repeat (rewrite <- ?app_assoc; cbn [app]). reflexivity. }
  split; [|split; [lia|split; [exact Hlt|exact Hreason]]].
  rewrite Hs at 1 2. rewrite app_length. replace (length consumed + length rest - length rest) with (length consumed) by lia.
  rewrite firstn_app, Nat.sub_diag, firstn_all. cbn [firstn]. apply app_nil_r.
Qed.

(* ------------------------------------------------------------------ instances *)
(* a head with version 1.0, padded reason, OWS around a value, an empty value, followed by body bytes *)
Definition rs_ex_wire : bytes :=
  bs "HTTP/1.0 404 Not  Found" ++ [x09; x0d; x0a] ++ bs "Content-Length:  12 " ++ [x0d; x0a] ++
  bs "X-Empty:" ++ [x0d; x0a; x0d; x0a] ++ bs "hello world!".

Example rs_ex_parse :
  match parse_response rs_ex_wire with
  | Ok r => N.eqb (r_version r) 0 && N.eqb (r_code r) 404 && bytes_eqb (r_reason r) (bs "Not  Found" ++ [x09]) &&
            Nat.eqb (r_offset r) 60 &&
            match content_length (r_hdrs r) with Some n => N.eqb n 12 | None => false end
  | _ => false
  end = true.
Proof. vm_compute. reflexivity. Qed.

Example rs_ex_strict :
  match strict_status_head rs_ex_wire with
  | Some (sh, n) => Nat.eqb n 60 && negb (ss_minor sh) && N.eqb (ss_code sh) 404 &&
                    bytes_eqb (ss_reason sh) (bs "Not  Found" ++ [x09]) && Nat.eqb (length (ss_fields sh)) 2 &&
                    bytes_eqb (skipn n rs_ex_wire) (bs "hello world!")
  | None => false
  end = true.
Proof. vm_compute. reflexivity. Qed.

(* empty reason phrase (the SP after the code is still required) *)
Example rs_ex_empty_reason :
  match parse_response (bs "HTTP/1.1 204 " ++ [x0d; x0a; x0d; x0a]), strict_status_head (bs "HTTP/1.1 204 " ++ [x0d; x0a; x0d; x0a]) with
  | Ok r, Some (sh, n) => N.eqb (r_code r) 204 && bytes_eqb (r_reason r) [] && Nat.eqb (r_offset r) 17 && Nat.eqb n 17 &&
                          bytes_eqb (ss_reason sh) []
  | _, _ => false
  end = true.
Proof. vm_compute. reflexivity. Qed.

(* what the strict shape excludes is rejected by the parser and by the recogniser alike *)
Example rs_ex_no_sp_after_code :          (* "HTTP/1.1 200" CRLF: the SP before the (empty) reason is missing *)
  parse_response (bs "HTTP/1.1 200" ++ [x0d; x0a; x0d; x0a]) = Err EStatus /\
  strict_status_head (bs "HTTP/1.1 200" ++ [x0d; x0a; x0d; x0a]) = None.
Proof. vm_compute. split; reflexivity. Qed.
Example rs_ex_two_digits :
  parse_response (bs "HTTP/1.1 20 OK" ++ [x0d; x0a; x0d; x0a]) = Err EStatus /\
  strict_status_head (bs "HTTP/1.1 20 OK" ++ [x0d; x0a; x0d; x0a]) = None.
Proof. vm_compute. split; reflexivity. Qed.
Example rs_ex_four_digits :
  parse_response (bs "HTTP/1.1 2000 OK" ++ [x0d; x0a; x0d; x0a]) = Err EStatus /\
  strict_status_head (bs "HTTP/1.1 2000 OK" ++ [x0d; x0a; x0d; x0a]) = None.
Proof. vm_compute. split; reflexivity. Qed.
Example rs_ex_bare_lf_status :
  parse_response (bs "HTTP/1.1 200 OK" ++ [x0a; x0d; x0a]) = Err EStatus /\
  strict_status_head (bs "HTTP/1.1 200 OK" ++ [x0a; x0d; x0a]) = None.
Proof. vm_compute. split; reflexivity. Qed.
Example rs_ex_bare_cr_in_reason :
  parse_response (bs "HTTP/1.1 200 O" ++ [x0d] ++ bs "K" ++ [x0d; x0a; x0d; x0a]) = Err EStatus /\
  strict_status_head (bs "HTTP/1.1 200 O" ++ [x0d] ++ bs "K" ++ [x0d; x0a; x0d; x0a]) = None.
Proof. vm_compute. split; reflexivity. Qed.
Example rs_ex_double_sp_before_code :
  parse_response (bs "HTTP/1.1  200 OK" ++ [x0d; x0a; x0d; x0a]) = Err EStatus /\
  strict_status_head (bs "HTTP/1.1  200 OK" ++ [x0d; x0a; x0d; x0a]) = None.
Proof. vm_compute. split; reflexivity. Qed.
Example rs_ex_version_2 :
  parse_response (bs "HTTP/1.2 200 OK" ++ [x0d; x0a; x0d; x0a]) = Err EVersion /\
  strict_status_head (bs "HTTP/1.2 200 OK" ++ [x0d; x0a; x0d; x0a]) = None.
Proof. vm_compute. split; reflexivity. Qed.
Example rs_ex_bare_lf_field :
  parse_response (bs "HTTP/1.1 200 OK" ++ [x0d; x0a] ++ bs "A: b" ++ [x0a] ++ bs "C: d" ++ [x0d; x0a; x0d; x0a]) = Err EHeader /\
  strict_status_head (bs "HTTP/1.1 200 OK" ++ [x0d; x0a] ++ bs "A: b" ++ [x0a] ++ bs "C: d" ++ [x0d; x0a; x0d; x0a]) = None.
Proof. vm_compute. split; reflexivity. Qed.

(* The grammar bracketed here is the one of the brief: reason = *( HTAB / SP / VCHAR ).  Two remarks on
   its edges, both about the shape itself (not about a gap between parser and recogniser):
   - RFC 9112 also allows obs-text (%x80-FF) in a reason phrase; the parser (and the recogniser) reject it; *)
Example rs_ex_obs_text_reason :
  parse_response (bs "HTTP/1.1 200 caf" ++ [xe9] ++ [x0d; x0a; x0d; x0a]) = Err EStatus /\
  strict_status_head (bs "HTTP/1.1 200 caf" ++ [xe9] ++ [x0d; x0a; x0d; x0a]) = None.
Proof. vm_compute. split; reflexivity. Qed.
(* - any three digits are a code: "000" and "099" are accepted although no status class 0xx exists. *)
Example rs_ex_code_000 :
  match parse_response (bs "HTTP/1.1 000 x" ++ [x0d; x0a; x0d; x0a]), strict_status_head (bs "HTTP/1.1 000 x" ++ [x0d; x0a; x0d; x0a]) with
  | Ok r, Some (sh, _) => N.eqb (r_code r) 0 && N.eqb (ss_code sh) 0
  | _, _ => false
  end = true.
Proof. vm_compute. reflexivity. Qed.

Print Assumptions response_sound.
Print Assumptions strict_status_exact.
