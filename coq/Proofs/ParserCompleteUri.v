(* C02 helpers: parse_uri on the four rendered target forms. *)
From KV Require Import Lib.Bytes Lib.Swar Model.Headers Model.Parser Spec.HttpGrammar
  Proofs.SwarSpec Proofs.ParserCompleteBase.

Ltac pc_len := repeat rewrite app_length; cbn [length]; lia.

(* ------------------------------------------------------------------ the two branches of parse_uri *)
Definition path_branch (buf : bytes) (ps : nat) : res (uri * bytes) :=
  let i := ps + match_path_vectored (skipn ps buf) in
  let bad := ps + match_uri_vectored (firstn (i - ps) (skipn ps buf)) in
  if Nat.ltb bad i then
    match nth_error buf bad with
    | Some b => if is_crlf_byte b then Err EVersion else Err EStatus
    | None => Fault FOob
    end
  else
  match nth_error buf i with
  | Some x3f =>
      let i2 := S i + match_uri_vectored (skipn (S i) buf) in
      match nth_error buf i2 with
      | Some x20 => finish_uri buf i2 ps i
      | Some _ => Err EStatus
      | None => Err EEof
      end
  | Some x20 => finish_uri buf i ps i
  | Some _ => Err EStatus
  | None => Err EEof
  end.

Definition end_branch (buf : bytes) (i : nat) : res (uri * bytes) :=
  let j := i + match_uri_vectored (skipn i buf) in
  match nth_error buf j with
  | Some x20 => if Nat.eqb j 0 then Err EStatus else finish_uri buf j 0 0
  | Some _ => Err EStatus
  | None => Err EEof
  end.

Lemma pc_parse_uri_unfold first tl :
  Byte.eqb first x2a = false ->
  parse_uri (first :: tl) =
  match (if Byte.eqb first x2f then S2Path 0 else step2 false (first :: tl) 0) with
  | S2Err => Err EStatus
  | S2End i => end_branch (first :: tl) i
  | S2Path ps => path_branch (first :: tl) ps
  end.
Proof. intros H. unfold parse_uri. rewrite H. reflexivity. Qed.

(* ------------------------------------------------------------------ scalar scanners on runs *)
Lemma pc_uri_tail_run l r : forallb is_vchar l = true -> uri_tail (l ++ x20 :: r) = length l.
Proof.
  induction l as [|b l IH]; cbn [forallb app uri_tail length]; intros H.
  - reflexivity.
  - apply andb_true_iff in H. destruct H as [Hb Hl]. rewrite Hb. rewrite (IH Hl). reflexivity.
Qed.

Lemma pc_uri_tail_all l : forallb is_vchar l = true -> uri_tail l = length l.
Proof.
  induction l as [|b l IH]; cbn [forallb uri_tail length]; intros H.
  - reflexivity.
  - apply andb_true_iff in H. destruct H as [Hb Hl]. rewrite Hb. rewrite (IH Hl). reflexivity.
Qed.

Lemma pc_path_tail_run l b r :
  forallb (fun y => negb (is_q_or_sp y)) l = true -> is_q_or_sp b = true ->
  path_tail (l ++ b :: r) = length l.
Proof.
  induction l as [|c l IH]; cbn [forallb app path_tail length]; intros H Hb.
  - rewrite Hb. reflexivity.
  - apply andb_true_iff in H. destruct H as [Hc Hl]. apply negb_true_iff in Hc. rewrite Hc.
    rewrite (IH Hl Hb). reflexivity.
Qed.

Lemma pc_rq_vchar q : opt_all is_query_char q = true -> forallb is_vchar (render_query q) = true.
Proof.
  destruct q as [s|]; cbn [opt_all render_query forallb]; intros H; [|reflexivity].
  rewrite (pc_forallb_impl _ _ _ pc_query_vchar H). reflexivity.
Qed.

Lemma pc_vchar_ascii_all l : forallb is_vchar l = true -> forallb is_ascii l = true.
Proof. apply pc_forallb_impl. exact pc_vchar_ascii. Qed.

(* ------------------------------------------------------------------ the path branch *)
Lemma pc_path_branch pre p q rest :
  forallb is_ascii pre = true -> forallb is_path_char p = true -> opt_all is_query_char q = true ->
  path_branch (pre ++ p ++ render_query q ++ x20 :: rest) (length pre) =
  Ok ({| full := pre ++ p ++ render_query q; p_start := length pre; p_end := length pre + length p |}, rest).
Proof.
  intros Hpre Hp Hq.
  pose proof (pc_forallb_impl _ _ _ pc_path_vchar Hp) as Hpv.
  pose proof (pc_rq_vchar q Hq) as Hqv.
  unfold path_branch. cbv zeta.
  rewrite match_path_vectored_spec, !match_uri_vectored_spec.
  rewrite (pc_skipn_mid pre _ _ eq_refl).
  assert (Ept : path_tail (p ++ render_query q ++ x20 :: rest) = length p).
  { destruct q as [s|]; cbn [render_query app]; apply pc_path_tail_run;
      try reflexivity; exact (pc_forallb_impl _ _ _ pc_path_nqs Hp). }
  rewrite Ept.
  replace (length pre + length p - length pre) with (length p) by lia.
  rewrite (pc_firstn_mid p _ _ eq_refl).
  rewrite (pc_uri_tail_all p Hpv). rewrite Nat.ltb_irrefl.
  set (buf := pre ++ p ++ render_query q ++ x20 :: rest).
  destruct q as [s|].
  - (* with a query *)
    cbn [render_query] in *. cbn [forallb] in Hqv. apply andb_true_iff in Hqv. destruct Hqv as [_ Hsv].
    assert (E1 : buf = (pre ++ p) ++ x3f :: (s ++ x20 :: rest)).
    { unfold buf. rewrite <- !app_assoc. reflexivity. }
    assert (E2 : buf = (pre ++ p ++ x3f :: s) ++ x20 :: rest).
    { unfold buf. rewrite <- !app_assoc. cbn [app]. reflexivity. }
    assert (N1 : nth_error buf (length pre + length p) = Some x3f).
    { rewrite E1. apply pc_nth_mid. pc_len. }
    assert (S1 : skipn (S (length pre + length p)) buf = s ++ x20 :: rest).
    { rewrite E1. apply pc_skipn_S_mid. pc_len. }
    rewrite N1. cbv iota. rewrite S1. rewrite (pc_uri_tail_run s rest Hsv).
    assert (N2 : nth_error buf (S (length pre + length p) + length s) = Some x20).
    { rewrite E2. apply pc_nth_mid. pc_len. }
    rewrite N2. cbv iota.
    unfold finish_uri.
    assert (F1 : firstn (S (length pre + length p) + length s) buf = pre ++ p ++ x3f :: s).
    { rewrite E2. apply pc_firstn_mid. pc_len. }
    assert (S2 : skipn (S (S (length pre + length p) + length s)) buf = rest).
    { rewrite E2. apply pc_skipn_S_mid. pc_len. }
    rewrite F1, S2. unfold str_unchecked.
    rewrite !forallb_app. cbn [forallb]. rewrite Hpre, (pc_vchar_ascii_all p Hpv), (pc_vchar_ascii_all s Hsv).
    reflexivity.
  - (* no query *)
    cbn [render_query app] in *.
    assert (E1 : buf = (pre ++ p) ++ x20 :: rest).
    { unfold buf. rewrite <- !app_assoc. reflexivity. }
    assert (N1 : nth_error buf (length pre + length p) = Some x20).
    { rewrite E1. apply pc_nth_mid. pc_len. }
    rewrite N1. cbv iota.
    unfold finish_uri.
    assert (F1 : firstn (length pre + length p) buf = pre ++ p).
    { rewrite E1. apply pc_firstn_mid. pc_len. }
    assert (S2 : skipn (S (length pre + length p)) buf = rest).
    { rewrite E1. apply pc_skipn_S_mid. pc_len. }
    rewrite F1, S2. unfold str_unchecked.
    rewrite !forallb_app. rewrite Hpre, (pc_vchar_ascii_all p Hpv). rewrite app_nil_r.
    reflexivity.
Qed.

Lemma pc_leb_true a b : a <= b -> Nat.leb a b = true.
Proof. intros H. apply Nat.leb_le. exact H. Qed.

Lemma pc_path_record pre p q :
  uri_path {| full := pre ++ p ++ render_query q; p_start := length pre; p_end := length pre + length p |} = Ok p.
Proof.
  unfold uri_path, slice. cbn [full p_start p_end].
  rewrite (pc_leb_true (length pre) (length pre + length p)) by lia.
  rewrite (pc_leb_true (length pre + length p) (length (pre ++ p ++ render_query q))) by pc_len.
  cbn [andb]. rewrite (pc_skipn_mid pre _ _ eq_refl).
  rewrite (pc_firstn_mid p (render_query q)) by lia. reflexivity.
Qed.

Lemma pc_query_tail s :
  slice (x3f :: s) 1 (length (x3f :: s)) = Ok s.
Proof.
  unfold slice. cbn [length].
  rewrite (pc_leb_true 1 (S (length s))) by lia.
  rewrite (pc_leb_true (S (length s)) (S (length s))) by lia.
  cbn [andb skipn]. rewrite (pc_firstn_all s) by lia. reflexivity.
Qed.

Lemma pc_query_record pre p q :
  uri_query {| full := pre ++ p ++ render_query q; p_start := length pre; p_end := length pre + length p |} = Ok q.
Proof.
  unfold uri_query. cbn [full p_start p_end]. unfold slice at 1.
  rewrite (pc_leb_true (length pre + length p) (length (pre ++ p ++ render_query q))) by pc_len.
  rewrite (pc_leb_true (length (pre ++ p ++ render_query q)) (length (pre ++ p ++ render_query q))) by lia.
  cbn [andb]. rewrite app_assoc. rewrite (pc_skipn_mid (pre ++ p) (render_query q)) by pc_len.
  rewrite (pc_firstn_all (render_query q)) by pc_len. cbn [bind].
  destruct q as [s|]; cbn [render_query find_index].
  - rewrite pc_eqb_refl. rewrite pc_query_tail. reflexivity.
  - reflexivity.
Qed.

(* ------------------------------------------------------------------ the no-slash branch *)
Lemma pc_end_branch pre q rest :
  nonempty pre = true -> forallb is_ascii pre = true -> opt_all is_query_char q = true ->
  end_branch (pre ++ render_query q ++ x20 :: rest) (length pre) =
  Ok ({| full := pre ++ render_query q; p_start := 0; p_end := 0 |}, rest).
Proof.
  intros Hne Hpre Hq. pose proof (pc_rq_vchar q Hq) as Hqv.
  unfold end_branch. cbv zeta. rewrite match_uri_vectored_spec.
  rewrite (pc_skipn_mid pre _ _ eq_refl).
  rewrite (pc_uri_tail_run _ rest Hqv).
  set (buf := pre ++ render_query q ++ x20 :: rest).
  assert (E1 : buf = (pre ++ render_query q) ++ x20 :: rest).
  { unfold buf. rewrite <- app_assoc. reflexivity. }
  assert (N1 : nth_error buf (length pre + length (render_query q)) = Some x20).
  { rewrite E1. apply pc_nth_mid. pc_len. }
  rewrite N1. cbv iota.
  assert (Z1 : Nat.eqb (length pre + length (render_query q)) 0 = false).
  { destruct pre as [|c pre']; [discriminate Hne|]. reflexivity. }
  rewrite Z1.
  unfold finish_uri.
  assert (F1 : firstn (length pre + length (render_query q)) buf = pre ++ render_query q).
  { rewrite E1. apply pc_firstn_mid. pc_len. }
  assert (S2 : skipn (S (length pre + length (render_query q))) buf = rest).
  { rewrite E1. apply pc_skipn_S_mid. pc_len. }
  rewrite F1, S2. unfold str_unchecked.
  rewrite forallb_app, Hpre, (pc_vchar_ascii_all _ Hqv). reflexivity.
Qed.

Lemma pc_zero_path l : uri_path {| full := l; p_start := 0; p_end := 0 |} = Ok [].
Proof. reflexivity. Qed.

Lemma pc_zero_query pre q :
  forallb (nb x3f) pre = true ->
  uri_query {| full := pre ++ render_query q; p_start := 0; p_end := 0 |} = Ok q.
Proof.
  intros Hpre. unfold uri_query. cbn [full p_start p_end]. unfold slice at 1.
  cbn [Nat.leb]. rewrite Nat.leb_refl. cbn [andb skipn]. rewrite Nat.sub_0_r.
  rewrite firstn_all. cbn [bind].
  destruct q as [s|]; cbn [render_query].
  - rewrite (pc_find_index_skip (Byte.eqb x3f) pre x3f s Hpre (pc_eqb_refl x3f)).
    unfold slice.
    rewrite (pc_leb_true (S (length pre)) (length (pre ++ x3f :: s))) by pc_len.
    rewrite Nat.leb_refl. cbn [andb].
    rewrite (pc_skipn_S_mid pre x3f s _ eq_refl).
    rewrite (pc_firstn_all s) by pc_len. reflexivity.
  - rewrite app_nil_r. rewrite (pc_find_index_none (Byte.eqb x3f) pre Hpre). reflexivity.
Qed.

(* ------------------------------------------------------------------ step2 over runs *)
Lemma pc_step2_plain1 seen b r i : plain b = true -> step2 seen (b :: r) i = step2 seen r (i + 1).
Proof. intros H. destruct b; vm_compute in H; try discriminate H; reflexivity. Qed.

Lemma pc_step2_colon_true r i : step2 true (x3a :: r) i = step2 true r (i + 1).
Proof.
  destruct r as [|c r1]; [reflexivity|]. destruct c; try reflexivity.
  destruct r1 as [|d r2]; [reflexivity|]. destruct d; reflexivity.
Qed.

Lemma pc_step2_colon_ns seen c r i : c <> x2f -> step2 seen (x3a :: c :: r) i = step2 seen (c :: r) (i + 1).
Proof. intros H. destruct c; try reflexivity. exfalso. apply H. reflexivity. Qed.

Lemma pc_step2_plain l : forall seen r i,
  forallb plain l = true -> step2 seen (l ++ r) i = step2 seen r (i + length l).
Proof.
  induction l as [|b l IH]; intros seen r i H.
  - cbn [app length]. rewrite Nat.add_0_r. reflexivity.
  - cbn [forallb] in H. apply andb_true_iff in H. destruct H as [Hb Hl].
    cbn [app]. rewrite (pc_step2_plain1 seen b _ i Hb). rewrite (IH seen r (i + 1) Hl).
    f_equal. cbn [length]. lia.
Qed.

Lemma pc_step2_auth l : forall r i,
  forallb aplain l = true -> step2 true (l ++ r) i = step2 true r (i + length l).
Proof.
  induction l as [|b l IH]; intros r i H.
  - cbn [app length]. rewrite Nat.add_0_r. reflexivity.
  - cbn [forallb] in H. apply andb_true_iff in H. destruct H as [Hb Hl].
    cbn [app].
    destruct (pc_aplain_cases b Hb) as [->|Hp].
    + rewrite pc_step2_colon_true. rewrite (IH r (i + 1) Hl). f_equal. cbn [length]. lia.
    + rewrite (pc_step2_plain1 true b _ i Hp). rewrite (IH r (i + 1) Hl). f_equal. cbn [length]. lia.
Qed.

Lemma pc_step2_authform l : forall seen c r i,
  forallb aplain l = true -> c <> x2f ->
  step2 seen (l ++ c :: r) i = step2 seen (c :: r) (i + length l).
Proof.
  induction l as [|b l IH]; intros seen c r i H Hc.
  - cbn [app length]. rewrite Nat.add_0_r. reflexivity.
  - cbn [forallb] in H. apply andb_true_iff in H. destruct H as [Hb Hl].
    replace (i + length (b :: l)) with (i + 1 + length l) by (cbn [length]; lia).
    destruct (pc_aplain_cases b Hb) as [->|Hp].
    + destruct l as [|d l'].
      * cbn [app]. rewrite (pc_step2_colon_ns seen c r i Hc). cbn [length]. rewrite Nat.add_0_r. reflexivity.
      * pose proof Hl as Hl'. cbn [forallb] in Hl'. apply andb_true_iff in Hl'. destruct Hl' as [Hd _].
        change ((x3a :: d :: l') ++ c :: r) with (x3a :: d :: (l' ++ c :: r)).
        rewrite (pc_step2_colon_ns seen d _ i (pc_aplain_nslash d Hd)).
        change (d :: l' ++ c :: r) with ((d :: l') ++ c :: r).
        apply IH; assumption.
    + cbn [app]. rewrite (pc_step2_plain1 seen b _ i Hp). apply IH; assumption.
Qed.

Lemma pc_step2_abs s a r :
  forallb is_scheme_char s = true -> forallb is_authority_char a = true ->
  step2 false (s ++ bs "://" ++ a ++ r) 0 = step2 true r (length (s ++ bs "://" ++ a)).
Proof.
  intros Hs Ha.
  rewrite (pc_step2_plain s false _ 0 (pc_forallb_impl _ _ _ pc_scheme_plain Hs)).
  change (bs "://") with [x3a; x2f; x2f]. cbn [app].
  change (step2 false (x3a :: x2f :: x2f :: a ++ r) (0 + length s))
    with (step2 true (a ++ r) (0 + length s + 3)).
  rewrite (pc_step2_auth a r _ (pc_forallb_impl _ _ _ pc_auth_aplain Ha)).
  f_equal. repeat rewrite app_length. cbn [length]. lia.
Qed.

(* ------------------------------------------------------------------ small facts on first bytes *)
Lemma pc_head_slash (p : bytes) :
  match p with x2f :: _ => true | _ => false end = true -> exists p', p = x2f :: p'.
Proof.
  intros H. destruct p as [|c p']; [discriminate H|].
  destruct c; try discriminate H. exists p'. reflexivity.
Qed.

Lemma pc_head_not_star (a : bytes) :
  nonempty a = true -> match a with x2a :: _ => false | _ => true end = true ->
  exists c a', a = c :: a' /\ Byte.eqb c x2a = false.
Proof.
  intros Hne H. destruct a as [|c a']; [discriminate Hne|].
  exists c, a'. split; [reflexivity|]. destruct c; try reflexivity. discriminate H.
Qed.

Lemma pc_alpha_nstar : forall b, is_alpha b = true -> Byte.eqb b x2a = false.
Proof. pc_bytes. Qed.
Lemma pc_alpha_nslash : forall b, is_alpha b = true -> Byte.eqb b x2f = false.
Proof. pc_bytes. Qed.
Lemma pc_aplain_nslashb : forall b, aplain b = true -> Byte.eqb b x2f = false.
Proof. pc_bytes. Qed.

(* ------------------------------------------------------------------ the four forms *)
Definition uri_ok (tg : target) (rest : bytes) : Prop :=
  exists u, parse_uri (render_target tg ++ x20 :: rest) = Ok (u, rest) /\
            full u = render_target tg /\
            uri_path u = Ok (target_path tg) /\
            uri_query u = Ok (target_query tg).

Lemma pc_uri_origin p q rest : rfc_target (Origin p q) = true -> uri_ok (Origin p q) rest.
Proof.
  intros H. cbn [rfc_target] in H.
  apply andb_true_iff in H. destruct H as [H Hq].
  apply andb_true_iff in H. destruct H as [Hhd Hp].
  destruct (pc_head_slash p Hhd) as [p' Ep].
  unfold uri_ok. cbn [render_target target_path target_query].
  exists {| full := [] ++ p ++ render_query q; p_start := length (@nil byte); p_end := length (@nil byte) + length p |}.
  split; [|split; [|split]].
  - rewrite <- app_assoc. rewrite Ep at 1.
    change ((x2f :: p') ++ render_query q ++ x20 :: rest) with (x2f :: (p' ++ render_query q ++ x20 :: rest)).
    rewrite pc_parse_uri_unfold by reflexivity.
    change (Byte.eqb x2f x2f) with true. cbv iota.
    change (x2f :: p' ++ render_query q ++ x20 :: rest) with ([] ++ (x2f :: p') ++ render_query q ++ x20 :: rest).
    rewrite <- Ep.
    exact (pc_path_branch [] p q rest eq_refl Hp Hq).
  - reflexivity.
  - apply pc_path_record.
  - apply pc_query_record.
Qed.

Lemma pc_uri_absolute s a p q rest : rfc_target (Absolute s a p q) = true -> uri_ok (Absolute s a p q) rest.
Proof.
  intros H. cbn [rfc_target] in H.
  apply andb_true_iff in H. destruct H as [H Hq].
  apply andb_true_iff in H. destruct H as [H Hp].
  apply andb_true_iff in H. destruct H as [H Hphd].
  apply andb_true_iff in H. destruct H as [H Ha].
  apply andb_true_iff in H. destruct H as [H Hane].
  apply andb_true_iff in H. destruct H as [Hshd Hs].
  destruct s as [|c s']; [discriminate Hshd|].
  set (s := c :: s') in *.
  set (pre := s ++ bs "://" ++ a).
  assert (Hpre_ascii : forallb is_ascii pre = true).
  { unfold pre. rewrite !forallb_app.
    rewrite (pc_forallb_impl _ _ _ pc_scheme_ascii Hs), (pc_forallb_impl _ _ _ pc_auth_ascii Ha). reflexivity. }
  assert (Hpre_nq : forallb (nb x3f) pre = true).
  { unfold pre. rewrite !forallb_app.
    rewrite (pc_forallb_impl _ _ _ pc_scheme_nq Hs), (pc_forallb_impl _ _ _ pc_auth_nq Ha). reflexivity. }
  assert (Ebuf : render_target (Absolute s a p q) ++ x20 :: rest = pre ++ p ++ render_query q ++ x20 :: rest).
  { cbn [render_target]. unfold pre. rewrite <- !app_assoc. reflexivity. }
  assert (Efull : render_target (Absolute s a p q) = pre ++ p ++ render_query q).
  { cbn [render_target]. unfold pre. rewrite <- !app_assoc. reflexivity. }
  assert (Escan : parse_uri (pre ++ p ++ render_query q ++ x20 :: rest) =
                  match step2 true (p ++ render_query q ++ x20 :: rest) (length pre) with
                  | S2Err => Err EStatus
                  | S2End i => end_branch (pre ++ p ++ render_query q ++ x20 :: rest) i
                  | S2Path ps => path_branch (pre ++ p ++ render_query q ++ x20 :: rest) ps
                  end).
  { unfold pre at 1. unfold s at 1.
    change ((((c :: s') ++ bs "://" ++ a) ++ p ++ render_query q ++ x20 :: rest))
      with (c :: ((s' ++ bs "://" ++ a) ++ p ++ render_query q ++ x20 :: rest)).
    rewrite (pc_parse_uri_unfold c _ (pc_alpha_nstar c Hshd)).
    rewrite (pc_alpha_nslash c Hshd).
    change (c :: ((s' ++ bs "://" ++ a) ++ p ++ render_query q ++ x20 :: rest))
      with (pre ++ p ++ render_query q ++ x20 :: rest).
    replace (step2 false (pre ++ p ++ render_query q ++ x20 :: rest) 0)
      with (step2 true (p ++ render_query q ++ x20 :: rest) (length pre)); [reflexivity|].
    unfold pre. rewrite <- (pc_step2_abs s a _ Hs Ha). rewrite <- !app_assoc. reflexivity. }
  unfold uri_ok. rewrite Ebuf, Efull, Escan. cbn [target_path target_query].
  destruct p as [|c0 p'].
  - (* empty path *)
    cbn [app].
    exists {| full := pre ++ render_query q; p_start := 0; p_end := 0 |}.
    split; [|split; [|split]].
    + assert (E2 : step2 true (render_query q ++ x20 :: rest) (length pre) = S2End (length pre)).
      { destruct q as [sq|]; reflexivity. }
      rewrite E2. apply pc_end_branch; [|exact Hpre_ascii|exact Hq]. reflexivity.
    + reflexivity.
    + apply pc_zero_path.
    + apply pc_zero_query. exact Hpre_nq.
  - destruct (pc_head_slash (c0 :: p') Hphd) as [p'' Ep]. inversion Ep. subst c0 p''.
    exists {| full := pre ++ (x2f :: p') ++ render_query q; p_start := length pre;
              p_end := length pre + length (x2f :: p') |}.
    split; [|split; [|split]].
    + change (step2 true ((x2f :: p') ++ render_query q ++ x20 :: rest) (length pre)) with (S2Path (length pre)).
      cbv iota. apply pc_path_branch; assumption.
    + reflexivity.
    + apply pc_path_record.
    + apply pc_query_record.
Qed.

Lemma pc_uri_authority a rest : rfc_target (AuthorityForm a) = true -> uri_ok (AuthorityForm a) rest.
Proof.
  intros H. cbn [rfc_target] in H.
  apply andb_true_iff in H. destruct H as [H Hstar].
  apply andb_true_iff in H. destruct H as [Hne Ha].
  change (forallb is_authform_char a = true) in Ha.
  pose proof (pc_forallb_impl _ _ _ pc_authform_auth Ha) as Hauth.
  pose proof (pc_forallb_impl _ _ _ pc_auth_aplain Hauth) as Hapl.
  destruct (pc_head_not_star a Hne Hstar) as [c [a' [Ea Hc]]].
  unfold uri_ok. cbn [render_target target_path target_query].
  exists {| full := a ++ render_query None; p_start := 0; p_end := 0 |}.
  split; [|split; [|split]].
  - assert (Hcs : Byte.eqb c x2f = false).
    { rewrite Ea in Hapl. cbn [forallb] in Hapl. apply andb_true_iff in Hapl. destruct Hapl as [Hc1 _].
      apply pc_aplain_nslashb. exact Hc1. }
    assert (E1 : parse_uri (a ++ x20 :: rest) = end_branch (a ++ x20 :: rest) (length a)).
    { rewrite Ea at 1. change ((c :: a') ++ x20 :: rest) with (c :: (a' ++ x20 :: rest)).
      rewrite (pc_parse_uri_unfold c _ Hc). rewrite Hcs.
      change (c :: (a' ++ x20 :: rest)) with ((c :: a') ++ x20 :: rest). rewrite <- Ea.
      rewrite (pc_step2_authform a false x20 rest 0 Hapl) by discriminate.
      change (step2 false (x20 :: rest) (0 + length a)) with (S2End (0 + length a)). cbv iota.
      reflexivity. }
    rewrite E1.
    exact (pc_end_branch a None rest Hne (pc_forallb_impl _ _ _ pc_auth_ascii Hauth) eq_refl).
  - cbn [render_query full]. apply app_nil_r.
  - apply pc_zero_path.
  - apply pc_zero_query. exact (pc_forallb_impl _ _ _ pc_auth_nq Hauth).
Qed.

Lemma pc_uri_asterisk rest : uri_ok Asterisk rest.
Proof.
  unfold uri_ok. cbn [render_target target_path target_query app].
  exists {| full := [x2a]; p_start := 0; p_end := 1 |}.
  split; [|split; [|split]]; reflexivity.
Qed.

Lemma pc_parse_uri tg rest : rfc_target tg = true -> uri_ok tg rest.
Proof.
  destruct tg as [p q|s a p q|a|]; intros H.
  - apply pc_uri_origin. exact H.
  - apply pc_uri_absolute. exact H.
  - apply pc_uri_authority. exact H.
  - apply pc_uri_asterisk.
Qed.
