(* C01 helper: parse_uri never faults; its output is an ASCII substring with a well-formed path span. *)
From KV Require Import Lib.Bytes Lib.Swar Model.Headers Model.Parser Spec.Substr Proofs.SwarSpec
  Proofs.ParserSafeBase.

(* ------------------------------------------------------------------ scalar scanners *)
Lemma uri_tail_le l : uri_tail l <= length l.
Proof. induction l as [|b r IH]; cbn [uri_tail length]; [lia|]. destruct (is_vchar b); lia. Qed.
Lemma path_tail_le l : path_tail l <= length l.
Proof. induction l as [|b r IH]; cbn [path_tail length]; [lia|]. destruct (is_q_or_sp b); lia. Qed.

Lemma uri_tail_ge l : forall n, n <= uri_tail l -> forallb is_vchar (firstn n l) = true.
Proof.
  induction l as [|b r IH]; intros n H; cbn [uri_tail] in H.
  - destruct n; reflexivity.
  - destruct n as [|n]; [reflexivity|]. cbn [firstn forallb].
    destruct (is_vchar b) eqn:Hb; [|lia]. rewrite IH by lia. reflexivity.
Qed.

Lemma uri_tail_vchar l : forallb is_vchar (firstn (uri_tail l) l) = true.
Proof. apply uri_tail_ge. lia. Qed.

Lemma uri_tail_ascii l : forallb is_ascii (firstn (uri_tail l) l) = true.
Proof. eapply forallb_impl; [exact vchar_ascii | apply uri_tail_vchar]. Qed.

(* ------------------------------------------------------------------ step2 *)
Lemma step2_colon seen r i :
  step2 seen (x3a :: r) i = step2 seen r (i + 1) \/
  exists r', r = x2f :: x2f :: r' /\ step2 seen (x3a :: r) i = step2 true r' (i + 3).
Proof.
  destruct r as [|c r1]; [left; reflexivity|].
  destruct (Byte.eqb c x2f) eqn:Ec.
  - apply byte_eqb_eq in Ec. subst c. destruct r1 as [|d r2]; [left; reflexivity|].
    destruct (Byte.eqb d x2f) eqn:Ed.
    + apply byte_eqb_eq in Ed. subst d. destruct seen; [left; reflexivity|].
      right. exists r2. split; reflexivity.
    + destruct d; try (left; reflexivity). discriminate Ed.
  - destruct c; try (left; reflexivity). discriminate Ec.
Qed.

Lemma step2_other seen b r i : Byte.eqb b x3a = false ->
  step2 seen (b :: r) i =
    if Byte.eqb b x2f then S2Path i
    else if Byte.eqb b x20 || Byte.eqb b x3f then S2End i
    else if is_valid_uri_byte b then step2 seen r (i + 1) else S2Err.
Proof. intros H. destruct b; try reflexivity. discriminate H. Qed.

Definition s2idx (s : scan2) : option nat :=
  match s with S2Err => None | S2Path i => Some i | S2End i => Some i end.

Lemma step2_prefix_aux n : forall l, length l <= n -> forall seen i0 i,
  s2idx (step2 seen l i0) = Some i ->
  i0 <= i /\ i - i0 <= length l /\ forallb is_ascii (firstn (i - i0) l) = true.
Proof.
  induction n as [|n IH]; intros l Hlen seen i0 i H.
  - destruct l; [|cbn [length] in Hlen; lia]. cbn in H. inversion H; subst.
    rewrite Nat.sub_diag. cbn. repeat split; lia.
  - destruct l as [|b r].
    { cbn in H. inversion H; subst. rewrite Nat.sub_diag. cbn. repeat split; lia. }
    cbn [length] in Hlen.
    destruct (Byte.eqb b x3a) eqn:Eb.
    + apply byte_eqb_eq in Eb. subst b.
      destruct (step2_colon seen r i0) as [E | [r' [Hr E]]]; rewrite E in H.
      * destruct (IH r ltac:(lia) _ _ _ H) as [H1 [H2 H3]].
        replace (i - i0) with (S (i - (i0 + 1))) by lia.
        cbn [length firstn forallb]. rewrite H3. repeat split; try lia; try reflexivity.
      * subst r. cbn [length] in Hlen.
        destruct (IH r' ltac:(lia) _ _ _ H) as [H1 [H2 H3]].
        replace (i - i0) with (S (S (S (i - (i0 + 3))))) by lia.
        cbn [length firstn forallb]. rewrite H3. repeat split; try lia; try reflexivity.
    + rewrite (step2_other seen b r i0 Eb) in H.
      destruct (Byte.eqb b x2f).
      { cbn in H. inversion H; subst. rewrite Nat.sub_diag. cbn [firstn forallb length]. repeat split; lia. }
      destruct (Byte.eqb b x20 || Byte.eqb b x3f).
      { cbn in H. inversion H; subst. rewrite Nat.sub_diag. cbn [firstn forallb length]. repeat split; lia. }
      destruct (is_valid_uri_byte b) eqn:Ev; [|discriminate H].
      destruct (IH r ltac:(lia) _ _ _ H) as [H1 [H2 H3]].
      replace (i - i0) with (S (i - (i0 + 1))) by lia.
      cbn [length firstn forallb]. rewrite H3, (uri_byte_ascii b Ev). repeat split; try lia.
Qed.

Lemma step2_prefix l i : s2idx (step2 false l 0) = Some i ->
  i <= length l /\ forallb is_ascii (firstn i l) = true.
Proof.
  intros H. destruct (step2_prefix_aux (length l) l (le_n _) false 0 i H) as [_ [H2 H3]].
  rewrite Nat.sub_0_r in H2, H3. auto.
Qed.

(* ------------------------------------------------------------------ parse_uri *)
Definition uri_wf (u : uri) : Prop := p_start u <= p_end u /\ p_end u <= length (full u).

Definition uri_ok (buf : bytes) (r : res (uri * bytes)) : Prop :=
  match r with
  | Fault _ => False
  | Err _ => True
  | Ok (u, rest) =>
      suffix rest buf /\ sublist (full u) buf /\ forallb is_ascii (full u) = true /\ uri_wf u
  end.

Lemma finish_uri_ok buf k ps pe :
  k <= length buf -> forallb is_ascii (firstn k buf) = true -> ps <= pe -> pe <= k ->
  uri_ok buf (finish_uri buf k ps pe).
Proof.
  intros Hk Ha H1 H2. unfold finish_uri, str_unchecked. rewrite Ha. cbn [bind uri_ok].
  split; [apply suffix_skipn|]. split; [apply sublist_firstn|]. split; [exact Ha|].
  unfold uri_wf. cbn [p_start p_end full]. rewrite firstn_length_le by exact Hk. lia.
Qed.

Lemma nth_error_lt {A} (l : list A) i x : nth_error l i = Some x -> i < length l.
Proof. intros H. apply nth_error_Some. rewrite H. discriminate. Qed.

Lemma parse_uri_ok buf : uri_ok buf (parse_uri buf).
Proof.
  unfold parse_uri. destruct buf as [|first tl] eqn:Hbuf; [exact I|]. rewrite <- Hbuf.
  destruct (Byte.eqb first x2a) eqn:Hstar.
  { apply byte_eqb_eq in Hstar. subst first. destruct (nth_error buf 1) as [c|]; [|exact I]. destruct c; try exact I.
    cbn [uri_ok]. split; [apply suffix_skipn|]. split.
    - rewrite Hbuf. exists [], tl. reflexivity.
    - split; [reflexivity|]. unfold uri_wf. cbn. lia. }
  destruct (if Byte.eqb first x2f then S2Path 0 else step2 false buf 0) as [|ps|i] eqn:Hs.
  - exact I.
  - (* path *)
    rewrite !match_uri_vectored_spec, !match_path_vectored_spec.
    assert (Hps : ps <= length buf /\ forallb is_ascii (firstn ps buf) = true).
    { destruct (Byte.eqb first x2f).
      - inversion Hs; subst ps. split; [lia|reflexivity].
      - apply step2_prefix. rewrite Hs. reflexivity. }
    destruct Hps as [Hps Hpa].
    set (L := skipn ps buf) in *.
    assert (HL : length L = length buf - ps) by apply skipn_length.
    set (n := path_tail L) in *.
    assert (Hn : n <= length L) by apply path_tail_le.
    replace (ps + n - ps) with n by lia.
    destruct (Nat.ltb (ps + uri_tail (firstn n L)) (ps + n)) eqn:Hlt.
    { apply Nat.ltb_lt in Hlt.
      destruct (nth_error buf (ps + uri_tail (firstn n L))) as [c|] eqn:Hc.
      - destruct (is_crlf_byte c); exact I.
      - apply nth_error_None in Hc. lia. }
    apply Nat.ltb_ge in Hlt.
    assert (Hv : forallb is_ascii (firstn n L) = true).
    { eapply forallb_impl; [exact vchar_ascii|].
      assert (Hg := uri_tail_ge (firstn n L) n ltac:(lia)).
      rewrite firstn_firstn, Nat.min_id in Hg. exact Hg. }
    assert (Hi : forallb is_ascii (firstn (ps + n) buf) = true).
    { rewrite firstn_add. apply forallb_app_true; assumption. }
    destruct (nth_error buf (ps + n)) as [c|] eqn:Hc; [|exact I].
    assert (Hci := nth_error_lt _ _ _ Hc).
    destruct c; try exact I.
    + (* ' ' *)
      apply finish_uri_ok; try lia. exact Hi.
    + (* '?' *)
      set (m := uri_tail (skipn (S (ps + n)) buf)).
      destruct (nth_error buf (S (ps + n) + m)) as [c2|] eqn:Hc2; [|exact I].
      assert (Hc2i := nth_error_lt _ _ _ Hc2).
      destruct c2; try exact I.
      apply finish_uri_ok; try lia.
      replace (S (ps + n) + m) with ((ps + n) + S m) by lia.
      rewrite firstn_add, (nth_error_skipn_cons _ _ _ Hc). cbn [firstn].
      apply forallb_app_true; [exact Hi|]. cbn [forallb]. unfold m. rewrite uri_tail_ascii. reflexivity.
  - (* no slash *)
    rewrite !match_uri_vectored_spec.
    assert (Hps : i <= length buf /\ forallb is_ascii (firstn i buf) = true).
    { destruct (Byte.eqb first x2f); [discriminate Hs|].
      apply step2_prefix. rewrite Hs. reflexivity. }
    destruct Hps as [Hps Hpa].
    set (m := uri_tail (skipn i buf)).
    destruct (nth_error buf (i + m)) as [c|] eqn:Hc; [|exact I].
    assert (Hci := nth_error_lt _ _ _ Hc).
    destruct c; try exact I.
    destruct (Nat.eqb (i + m) 0); [exact I|].
    apply finish_uri_ok; try lia.
    rewrite firstn_add. apply forallb_app_true; [exact Hpa|]. apply uri_tail_ascii.
Qed.
