(* Proofs for C20 (bodies are streamed with bounded memory): the buffer ledger of Model/Memory.v.
   Response side: every piece the printer holds is bounded by the constant of the buffer it lives in.
   Request side: the BufReader's buffer never exceeds its capacity, whatever the handler calls. *)
From KV Require Import Lib.Bytes Lib.Utf8 Model.Headers Model.Parser Model.Printer Model.Body Model.Server
  Model.Memory Spec.ChunkedSpec Proofs.PrinterRoundBase Proofs.BodyBase Proofs.ServerHead.

(* ------------------------------------------------------------------ constants (kept folded) *)
Lemma COPY_BUF_is_PROBE_MAX : COPY_BUF = PROBE_MAX.
Proof. reflexivity. Qed.
Lemma COPY_BUF_pos : 0 < COPY_BUF.
Proof. rewrite COPY_BUF_is_PROBE_MAX. exact PROBE_MAX_pos. Qed.

(* ------------------------------------------------------------------ response side *)
Lemma rd_len k : forall r out r', rd k r = (out, r') -> length out <= k.
Proof.
  induction r as [|p rest IH]; intros out r' E.
  - cbn [rd] in E. injection E as E1 E2. subst out. cbn [length]. lia.
  - destruct p as [|b p].
    + cbn [rd] in E. exact (IH out r' E).
    + cbn [rd] in E.
      assert (out = firstn k (b :: p)) as Ho.
      { destruct (skipn k (b :: p)); injection E as E1 E2; symmetry; exact E1. }
      subst out. apply firstn_le_length.
Qed.

Lemma max_len_le K l : Forall (fun p : bytes => length p <= K) l -> max_len l <= K.
Proof.
  intros HF. induction HF as [|p l Hp HF IH]; unfold max_len in *; cbn [fold_right]; lia.
Qed.

Lemma chunk_pieces_le : forall fuel r, Forall (fun p : bytes => length p <= CHUNK_BUF) (chunk_pieces fuel r).
Proof.
  induction fuel as [|f IH]; intros r; [constructor|].
  cbn [chunk_pieces]. destruct (rd CHUNK_BUF r) as [out r'] eqn:ER.
  apply rd_len in ER. destruct out as [|b o]; [constructor|].
  constructor; [exact ER | apply IH].
Qed.

Lemma stream_copy_le : forall fuel limit r, Forall (fun p : bytes => length p <= COPY_BUF) (stream_copy fuel limit r).
Proof.
  induction fuel as [|f IH]; intros limit r; [constructor|].
  cbn [stream_copy]. destruct (Nat.eqb limit 0); [constructor|].
  destruct (rd (Nat.min limit COPY_BUF) r) as [out r'] eqn:ER.
  apply rd_len in ER. destruct out as [|b o]; [constructor|].
  constructor; [lia | apply IH].
Qed.

Lemma probe_body_len : forall fuel r acc p c r', length acc <= PROBE_MAX ->
  probe_body fuel r acc = (p, c, r') -> length p <= PROBE_MAX.
Proof.
  induction fuel as [|f IH]; intros r acc p c r' Ha E.
  - cbn [probe_body] in E. injection E as E1 E2 E3. subst p. exact Ha.
  - cbn [probe_body] in E. destruct (Nat.leb_spec PROBE_MAX (length acc)) as [HL|HL].
    + injection E as E1 E2 E3. subst p. exact Ha.
    + destruct (rd (PROBE_MAX - length acc) r) as [out r1] eqn:ER.
      apply rd_len in ER. destruct out as [|b o].
      * injection E as E1 E2 E3. subst p. exact Ha.
      * apply (IH r1 (acc ++ b :: o) p c r'); [|exact E]. rewrite app_length. lia.
Qed.

Theorem body_ledger_bound : forall h r, body_ledger h r <= K_BODY.
Proof.
  intros h r. unfold body_ledger, K_BODY.
  destruct (Headers.chunked h).
  - pose proof (max_len_le _ _ (chunk_pieces_le (reader_fuel r) r)) as HM. lia.
  - destruct (content_length h) as [cl|].
    + destruct (N.leb_spec cl (N.of_nat PROBE_MAX)) as [L|L].
      * rewrite take_all_spec by apply reader_fuel_measure. cbn [Datatypes.app].
        pose proof (firstn_le_length (N.to_nat cl) (concat r)) as HF. lia.
      * pose proof (max_len_le _ _ (stream_copy_le (reader_fuel r) (N.to_nat cl) r)) as HM.
        pose proof COPY_BUF_is_PROBE_MAX as HC. lia.
    + destruct (probe_body (reader_fuel r) r []) as [[prefix complete] r'] eqn:EP.
      assert (length prefix <= PROBE_MAX) as HP.
      { apply (probe_body_len _ _ [] _ _ _ (Nat.le_0_l PROBE_MAX) EP). }
      destruct complete; [lia|].
      pose proof (max_len_le _ _ (chunk_pieces_le (reader_fuel r') r')) as HM. lia.
Qed.

Lemma stream_copy_spec : forall fuel limit r, measure r < fuel ->
  concat (stream_copy fuel limit r) = firstn limit (concat r).
Proof.
  induction fuel as [|f IH]; intros limit r Hf; [lia|].
  cbn [stream_copy]. destruct (Nat.eqb_spec limit 0) as [E|E].
  - subst limit. reflexivity.
  - destruct (rd (Nat.min limit COPY_BUF) r) as [out r'] eqn:ER.
    pose proof COPY_BUF_pos as HC.
    destruct (rd_spec (Nat.min limit COPY_BUF) ltac:(lia) r out r' ER) as (A1 & A2 & A3 & A4).
    destruct out as [|b o].
    + rewrite (A3 eq_refl). destruct limit; reflexivity.
    + assert (measure r' < measure r) as Hm by (apply A4; discriminate).
      cbn [concat]. rewrite IH by lia. rewrite A1, firstn_app_le by lia. reflexivity.
Qed.

Theorem stream_copy_data : forall r limit,
  concat (stream_copy (reader_fuel r) limit r) = fst (take_all (reader_fuel r) limit r []).
Proof.
  intros r limit. rewrite stream_copy_spec, take_all_spec by apply reader_fuel_measure. reflexivity.
Qed.

Lemma chunk_pieces_spec : forall fuel r,
  write_chunked fuel r = flat_map Printer.chunk (chunk_pieces fuel r) ++ LAST_CHUNK.
Proof.
  induction fuel as [|f IH]; intros r; [reflexivity|].
  cbn [write_chunked chunk_pieces]. destruct (rd CHUNK_BUF r) as [out r'] eqn:ER.
  destruct out as [|b o]; [reflexivity|].
  cbn [flat_map]. rewrite IH, <- app_assoc. reflexivity.
Qed.

Theorem chunk_pieces_data : forall r,
  write_chunked (reader_fuel r) r = flat_map Printer.chunk (chunk_pieces (reader_fuel r) r) ++ LAST_CHUNK.
Proof. intros r. apply chunk_pieces_spec. Qed.

(* ------------------------------------------------------------------ request side: the BufReader's buffer *)
Definition Small (s : src) : Prop := (lenN (bbuf s) <= BUF_SIZE)%N.

Lemma lenN_skipnN_le k l : (lenN (skipnN k l) <= lenN l)%N.
Proof. rewrite <- (firstnN_skipnN k l) at 2. rewrite lenN_app. lia. Qed.

Lemma Small_nil s : bbuf s = [] -> Small s.
Proof. intros H. unfold Small. rewrite H, lenN_nil. unfold BUF_SIZE. lia. Qed.

Lemma take_read_len k s out l' sg' tk : take_read k s = (out, l', sg', tk) -> (lenN out <= k)%N.
Proof. intros H. apply take_read_spec in H. apply H. Qed.

Lemma Small_fill_buf s : Small s -> Small (fill_buf s).
Proof.
  intros HS. unfold fill_buf. destruct (bbuf s) as [|x b] eqn:Eb; [|exact HS].
  destruct (take_read BUF_SIZE s) as [[[out l'] sg'] tk] eqn:E.
  unfold Small. cbn [bbuf]. exact (take_read_len _ _ _ _ _ _ E).
Qed.

Lemma Small_consume n s : Small s -> Small (consume n s).
Proof.
  unfold Small, consume. cbn [bbuf]. intros HS.
  pose proof (lenN_skipnN_le n (bbuf s)) as HL. lia.
Qed.

Lemma Small_buf_read k s out s' : Small s -> buf_read k s = (out, s') -> Small s'.
Proof.
  intros HS. unfold buf_read. destruct (bbuf s) as [|x b] eqn:Eb.
  - destruct (N.leb BUF_SIZE k).
    + destruct (take_read k s) as [[[o l'] sg'] tk] eqn:E. intros H. injection H as H1 H2. subst s'.
      apply Small_nil. reflexivity.
    + intros H. injection H as H1 H2. subst s'. apply Small_consume, Small_fill_buf, HS.
  - intros H. injection H as H1 H2. subst s'. apply Small_consume, HS.
Qed.

Lemma Small_read_exact_loop : forall fuel n s acc x s', Small s ->
  read_exact_loop fuel n s acc = Some (x, s') -> Small s'.
Proof.
  induction fuel as [|fuel IH]; intros n s acc x s' HS H.
  - cbn [read_exact_loop] in H. destruct (N.eqb n 0); [|discriminate H].
    injection H as H1 H2. subst s'. exact HS.
  - cbn [read_exact_loop] in H. destruct (N.eqb n 0).
    + injection H as H1 H2. subst s'. exact HS.
    + destruct (buf_read n s) as [out s1] eqn:Ebr.
      apply (Small_buf_read _ _ _ _ HS) in Ebr.
      destruct out as [|o out]; [discriminate H|].
      exact (IH _ _ _ _ _ Ebr H).
Qed.

Lemma Small_read_exact n s x s' : Small s -> read_exact n s = Some (x, s') -> Small s'.
Proof.
  intros HS. unfold read_exact. destruct (N.leb n (lenN (firstnN n (bbuf s)))).
  - intros H. injection H as H1 H2. subst s'. apply Small_consume, HS.
  - apply Small_read_exact_loop. exact HS.
Qed.

Lemma Small_read_until_lf : forall fuel s acc line s', Small s ->
  read_until_lf fuel s acc = (line, s') -> Small s'.
Proof.
  induction fuel as [|fuel IH]; intros s acc line s' HS H.
  - cbn [read_until_lf] in H. injection H as H1 H2. subst s'. exact HS.
  - cbn [read_until_lf] in H. apply Small_fill_buf in HS.
    destruct (find_index (Byte.eqb x0a) (bbuf (fill_buf s))) as [i|].
    + injection H as H1 H2. subst s'. apply Small_consume, HS.
    + destruct (bbuf (fill_buf s)) as [|y bb] eqn:Eb.
      * injection H as H1 H2. subst s'. exact HS.
      * apply (IH _ _ _ _ (Small_consume _ _ HS) H).
Qed.

Lemma Small_read_line s r s' : Small s -> read_line s = (r, s') -> Small s'.
Proof.
  intros HS. unfold read_line. destruct (read_until_lf (sfuel s) s []) as [line s1] eqn:E.
  apply (Small_read_until_lf _ _ _ _ _ HS) in E.
  destruct (utf8_valid line); intros H; injection H as H1 H2; subst s'; exact E.
Qed.

Definition res_st {S} (r : rres S) : S := match r with ROk _ s => s | RErr _ s => s end.

Lemma Small_read_chunk_size c : Small (c_src c) -> Small (c_src (res_st (read_chunk_size c))).
Proof.
  intros HS. unfold read_chunk_size. destruct (read_line (c_src c)) as [r s'] eqn:E.
  apply (Small_read_line _ _ _ HS) in E. cbv zeta.
  repeat match goal with
         | |- context [match ?x with _ => _ end] => destruct x
         end; cbn [res_st c_src]; exact E.
Qed.

Lemma Small_trailer_loop : forall fuel s, Small s -> Small (snd (trailer_loop fuel s)).
Proof.
  induction fuel as [|fuel IH]; intros s HS; [exact HS|].
  cbn [trailer_loop]. destruct (read_line s) as [r s'] eqn:E.
  apply (Small_read_line _ _ _ HS) in E.
  destruct r as [line|e]; [|exact E].
  destruct line as [|b l]; [exact E|].
  destruct (bytes_eqb (b :: l) [x0d; x0a] || bytes_eqb (b :: l) [x0a]); [exact E|].
  apply IH, E.
Qed.

Lemma Small_advance : forall fuel c, Small (c_src c) -> Small (c_src (res_st (advance fuel c))).
Proof.
  induction fuel as [|fuel IH]; intros c HS; [exact HS|].
  cbn [advance]. destruct (c_state c).
  - pose proof (Small_read_chunk_size c HS) as HR.
    destruct (read_chunk_size c) as [o c'|e c'].
    + apply IH. exact HR.
    + exact HR.
  - destruct (N.eqb (c_remaining c) 0); [|exact HS]. apply IH. exact HS.
  - destruct (read_exact 2%N (c_src c)) as [[crlf s']|] eqn:E; [|exact HS].
    apply (Small_read_exact _ _ _ _ HS) in E.
    destruct (bytes_eqb crlf [x0d; x0a]); [|exact E]. apply IH. exact E.
  - pose proof (Small_trailer_loop (sfuel (c_src c)) (c_src c) HS) as HT.
    destruct (trailer_loop (sfuel (c_src c)) (c_src c)) as [[e|] s']; cbn [snd] in HT.
    + exact HT.
    + apply IH. exact HT.
  - exact HS.
Qed.

Lemma Small_chunked_read_loop : forall fuel k c w, Small (c_src c) ->
  Small (c_src (res_st (chunked_read_loop fuel k c w))).
Proof.
  induction fuel as [|fuel IH]; intros k c w HS; [exact HS|].
  cbn [chunked_read_loop].
  pose proof (Small_advance (adv_fuel c) c HS) as HA.
  destruct (advance (adv_fuel c) c) as [o c1|e c1]; cbn [res_st] in HA; [|exact HA].
  assert (Small (c_src (res_st (
    if N.eqb k 0 then ROk w c1
    else
      let to_read := N.min (c_remaining c1) k in
      let '(out, s') := buf_read to_read (c_src c1) in
      match out with
      | [] => RErr EUnexpectedEof {| c_src := s'; c_state := c_state c1; c_remaining := c_remaining c1 |}
      | _ =>
          let n := lenN out in
          let c2 := {| c_src := s'; c_state := c_state c1; c_remaining := (c_remaining c1 - n)%N |} in
          if N.eqb (c_remaining c2) 0 || N.eqb (k - n) 0 then ROk (w ++ out) c2
          else chunked_read_loop fuel (k - n)%N c2 (w ++ out)
      end)))) as HG.
  { destruct (N.eqb k 0); [exact HA|]. cbv zeta.
    destruct (buf_read (N.min (c_remaining c1) k) (c_src c1)) as [out s'] eqn:Ebr.
    apply (Small_buf_read _ _ _ _ HA) in Ebr.
    destruct out as [|y ys]; [exact Ebr|].
    match goal with |- context [if ?x then _ else _] => destruct x end; [exact Ebr|].
    apply IH. exact Ebr. }
  destruct (c_state c1); try exact HG. exact HA.
Qed.

Lemma Small_body_read k b : Small (body_src b) -> Small (body_src (res_st (body_read k b))).
Proof.
  intros HS. destruct b as [r|c|s|s]; cbn [body_read body_src] in *.
  - unfold fixed_read. destruct (N.eqb (f_remaining r) 0 || N.eqb k 0)%bool; [exact HS|]. cbv zeta.
    destruct (buf_read (N.min (f_remaining r) k) (f_src r)) as [out s'] eqn:Ebr.
    apply (Small_buf_read _ _ _ _ HS) in Ebr.
    destruct out as [|x o]; exact Ebr.
  - unfold chunked_read.
    pose proof (Small_chunked_read_loop (sfuel (c_src c)) k c [] HS) as HC.
    destruct (chunked_read_loop (sfuel (c_src c)) k c []) as [o c'|e c']; exact HC.
  - destruct (buf_read k s) as [out s'] eqn:Ebr.
    apply (Small_buf_read _ _ _ _ HS) in Ebr. exact Ebr.
  - exact HS.
Qed.

Lemma Small_body_fill_buf b : Small (body_src b) -> Small (body_src (res_st (body_fill_buf b))).
Proof.
  intros HS. destruct b as [r|c|s|s]; cbn [body_fill_buf body_src] in *.
  - unfold fixed_fill_buf. destruct (N.eqb (f_remaining r) 0); [exact HS|]. cbv zeta.
    apply Small_fill_buf in HS.
    destruct (bbuf (fill_buf (f_src r))); exact HS.
  - unfold chunked_fill_buf.
    pose proof (Small_advance (adv_fuel c) c HS) as HA.
    destruct (advance (adv_fuel c) c) as [o c1|e c1]; cbn [res_st] in HA; [|exact HA].
    pose proof (Small_fill_buf _ HA) as HF.
    destruct (c_state c1); cbv zeta; try exact HA;
      destruct (bbuf (fill_buf (c_src c1))); exact HF.
  - apply Small_fill_buf, HS.
  - exact HS.
Qed.

Lemma Small_body_consume n b : Small (body_src b) -> Small (body_src (body_consume n b)).
Proof.
  intros HS. destruct b as [r|c|s|s]; cbn [body_consume body_src fixed_consume chunked_consume f_src c_src] in *;
    try (apply Small_consume, HS). exact HS.
Qed.

Lemma Small_bstep b o : Small (body_src b) -> Small (body_src (bstep b o)).
Proof.
  intros HS. destruct o as [k| |n]; cbn [bstep].
  - pose proof (Small_body_read k b HS) as H. destruct (body_read k b); exact H.
  - pose proof (Small_body_fill_buf b HS) as H. destruct (body_fill_buf b); exact H.
  - apply Small_body_consume, HS.
Qed.

Lemma Small_run : forall ops b, Small (body_src b) -> Small (body_src (fold_left bstep ops b)).
Proof.
  induction ops as [|o ops IH]; intros b HS; [exact HS|].
  cbn [fold_left]. apply IH, Small_bstep, HS.
Qed.

Theorem reader_retained_bound : forall lo st ops b0,
  (b0 = new_chunked lo st \/ (exists n, b0 = new_fixed lo st n) \/ b0 = new_eof lo st \/ b0 = new_empty lo st) ->
  reader_retained (fold_left bstep ops b0) <= 4096.
Proof.
  intros lo st ops b0 H0.
  assert (Small (body_src b0)) as HS.
  { destruct H0 as [H|[[n H]|[H|H]]]; subst b0; apply Small_nil; reflexivity. }
  pose proof (Small_run ops b0 HS) as HR. unfold Small, lenN, BUF_SIZE in HR. unfold reader_retained.
  change 4096 with (N.to_nat 4096). lia.
Qed.

Lemma Small_drain : forall fuel b, Small (body_src b) -> Small (body_src (drain fuel b)).
Proof.
  induction fuel as [|f IH]; intros b HS; [exact HS|].
  cbn [drain]. pose proof (Small_body_read 1024%N b HS) as HR.
  destruct b as [r|c|s|s]; try exact HS;
    (destruct (body_read 1024%N _) as [o b'|e b']; cbn [res_st] in HR; [|exact HR];
     destruct o as [|x o]; [exact HR|apply IH, HR]).
Qed.

(* dropping the reader (BodyReader::drain) after any use keeps the same bound while it discards the rest *)
Theorem drain_retained_bound : forall lo st ops b0 fuel,
  (b0 = new_chunked lo st \/ (exists n, b0 = new_fixed lo st n) \/ b0 = new_eof lo st \/ b0 = new_empty lo st) ->
  reader_retained (drain fuel (fold_left bstep ops b0)) <= 4096.
Proof.
  intros lo st ops b0 fuel H0.
  assert (Small (body_src b0)) as HS.
  { destruct H0 as [H|[[n H]|[H|H]]]; subst b0; apply Small_nil; reflexivity. }
  pose proof (Small_drain fuel _ (Small_run ops b0 HS)) as HR. unfold Small, lenN, BUF_SIZE in HR. unfold reader_retained.
  change 4096 with (N.to_nat 4096). lia.
Qed.

(* ------------------------------------------------------------------ read_line *)
Definition nolf (l : bytes) : Prop := forallb (fun b => negb (Byte.eqb b x0a)) l = true.

Lemma read_until_lf_gen : forall fuel s acc line s', read_until_lf fuel s acc = (line, s') ->
  exists before t, line = acc ++ before ++ t /\ reach s = (before ++ t) ++ reach s' /\
                   nolf before /\ (t = [] \/ t = [x0a]).
Proof.
  induction fuel as [|fuel IH]; intros s acc line s' H.
  - cbn [read_until_lf] in H. injection H as H1 H2. subst line s'.
    exists [], []. cbn [Datatypes.app]. rewrite app_nil_r. repeat split. left. reflexivity.
  - cbn [read_until_lf] in H.
    destruct (fill_buf_spec s) as [F1 [F2 F3]].
    remember (fill_buf s) as s1 eqn:Es1.
    destruct (find_index (Byte.eqb x0a) (bbuf s1)) as [i|] eqn:Efi.
    + destruct (find_index_lf_some _ i [] Efi) as [T1 T2].
      apply to_lf_some in T1. destruct T1 as [_ T1].
      injection H as H1 H2. subst line s'.
      exists (firstn i (bbuf s1)), [x0a]. rewrite <- T2.
      split; [reflexivity|]. split; [|split; [exact T1|right; reflexivity]].
      rewrite <- F1. unfold reach, consume. cbn [bbuf lo segs stake].
      change (N.pos (Pos.of_succ_nat i)) with (N.of_nat (S i)). rewrite skipnN_of_nat.
      rewrite app_assoc, firstn_skipn. reflexivity.
    + apply find_index_lf_none in Efi.
      destruct (bbuf s1) as [|x b] eqn:Eb.
      * injection H as H1 H2. subst line s'.
        exists [], []. cbn [Datatypes.app]. rewrite app_nil_r. repeat split; [symmetry; exact F1|]. left. reflexivity.
      * rewrite <- Eb in *. remember (bbuf s1) as A eqn:EA.
        destruct (IH _ _ _ _ H) as (before & t & G1 & G2 & G3 & G4).
        exists (A ++ before), t. split; [rewrite G1, <- !app_assoc; reflexivity|].
        split; [|split; [|exact G4]].
        -- rewrite <- F1. destruct (consume_prefix s1 A []) as [C1 _]; [rewrite app_nil_r; symmetry; exact EA|].
           rewrite C1, G2, <- !app_assoc. reflexivity.
        -- unfold nolf in *. rewrite forallb_app, Efi, G3. reflexivity.
Qed.

Lemma nolf_nth l : nolf l -> forall i, nth_error l i <> Some x0a.
Proof.
  unfold nolf. intros H i C. apply nth_error_In in C.
  rewrite forallb_forall in H. specialize (H _ C).
  rewrite byte_eqb_refl in H. discriminate H.
Qed.

Theorem read_line_bound : forall s line s', read_line s = (inl line, s') ->
  length line <= length (bbuf s) + length (lo s) + length (concat (segs s)) /\
  (forall i, i < length line - 1 -> nth_error line i <> Some x0a).
Proof.
  intros s line s' H. unfold read_line in H.
  destruct (read_until_lf (sfuel s) s []) as [l s1] eqn:E.
  destruct (utf8_valid l); [|discriminate H]. injection H as H1 H2. subst l s1.
  apply read_until_lf_gen in E. destruct E as (before & t & G1 & G2 & G3 & G4).
  cbn [Datatypes.app] in G1. split.
  - assert (length line <= length (reach s)) as HL by (rewrite G2, <- G1, app_length; lia).
    unfold reach in HL. rewrite app_length in HL.
    pose proof (length_tail3_le (lo s) (segs s) (stake s)) as HT. rewrite app_length in HT. lia.
  - intros i Hi. subst line. rewrite app_length in Hi.
    rewrite nth_error_app1 by (destruct G4 as [G4|G4]; subst t; cbn [length] in *; lia).
    apply nolf_nth, G3.
Qed.

(* ------------------------------------------------------------------ the request head *)
Theorem head_buffer_bound : forall fuel N filled segs buf r rest, length filled <= N ->
  read_request fuel N filled segs = (RParsed buf r, rest) -> length buf <= N.
Proof. exact read_request_bound. Qed.
