(* Reclamation of the per-connection records after the repair of finding F25 (Model/Epoll.v: the worker's last step
   [LGrave c] hands the record to the graveyard, the loop frees what it finds there once it has looked at every
   event of its batch, and epoll_wait has a timeout: [LWait []] is always enabled while the loop waits).
     1. [no_leak]: quiescent, every connection ended, graveyard empty  =>  no record is allocated;
     2. [reclaim_enabled], [reclaim_sweep]: the loop can always free what is in the graveyard by itself, and one wake-up
        (the explicit trace [reclaim_trace s]) empties the graveyard;
     3. [all_ended_reclaimed]: once every connection has ended that wake-up leaves nothing held;
     4. [freed_only_from_graveyard], [freed_never_accessed], [freed_forever], [no_access_after_free]: what is freed is
        dead and is never touched again.
   Method: the per-connection modes of Proofs/Epoll.v (a live record is in M1 .. M7: registered, or owned by a job,
   or in the graveyard). *)
From KV Require Import Lib.Bytes Model.Epoll Proofs.Epoll Proofs.EpollLive.

(* ------------------------------------------------------------------------------------------ *)
(* 1. no leak                                                                                   *)

(* every allocated record has a holder that will lead to its release: the interest set (an event will reach a
   job), a job (on its way to the graveyard or to a re-arm), or the graveyard (the loop will free it) *)
Lemma live_is_held : forall tr s c k, run ep_init tr = Some s -> nth_error (e_conns s) c = Some k ->
  k_rec k = ALive -> k_registered k = true \/ k_jobs k <> [] \/ k_grave k = true.
Proof.
  intros tr s c k Hrun Hn Hlive. pose proof (run_cinv tr s c k Hrun Hn) as Hc.
  inv_cinv Hc m pend peer ib ans Hinb. simpl in Hlive. simpl.
  destruct m; try discriminate Hlive;
    first [ left; reflexivity | right; right; reflexivity | right; left; intro Hx; discriminate Hx ].
Qed.

(* what sits in the graveyard is dead but not yet freed *)
Lemma graveyard_is_dead : forall tr s c k, run ep_init tr = Some s -> nth_error (e_conns s) c = Some k ->
  k_grave k = true ->
  k_rec k = ALive /\ k_registered k = false /\ k_stream k = false /\ k_closed k = true /\ k_jobs k = [].
Proof.
  intros tr s c k Hrun Hn Hg. pose proof (run_cinv tr s c k Hrun Hn) as Hc.
  inv_cinv Hc m pend peer ib ans Hinb. simpl in Hg.
  destruct m; try discriminate Hg. simpl. repeat split; reflexivity.
Qed.

Lemma filter_nil : forall {A} (f : A -> bool) (l : list A),
  (forall x, In x l -> f x = false) -> filter f l = [].
Proof.
  intros A f l. induction l as [|x r IH]; intros Hall.
  - reflexivity.
  - cbn [filter]. rewrite (Hall x (or_introl eq_refl)). apply IH. intros y Hin. apply Hall. right. exact Hin.
Qed.

Theorem no_leak : forall tr s, run ep_init tr = Some s -> all_ended s = true -> graveyard_empty s = true ->
  live_records s = 0.
Proof.
  intros tr s Hrun Hend Hge. unfold live_records. rewrite filter_nil; [reflexivity|].
  intros k Hin. unfold all_ended in Hend.
  destruct (e_loop s) eqn:Hloop; [|discriminate Hend].
  pose proof (proj1 (forallb_forall _ _) Hend k Hin) as Hk. cbn beta in Hk.
  pose proof (proj1 (forallb_forall _ _) Hge k Hin) as Hgk. cbn beta in Hgk.
  apply In_nth_error in Hin. destruct Hin as [c Hn].
  destruct (k_rec k) eqn:Hrec; [|reflexivity]. exfalso.
  destruct (live_is_held tr s c k Hrun Hn Hrec) as [Hr|[Hj|Hg]].
  - rewrite Hr in Hk. destruct (k_jobs k); discriminate Hk.
  - destruct (k_jobs k); [apply Hj; reflexivity | discriminate Hk].
  - rewrite Hg in Hgk. discriminate Hgk.
Qed.

(* ------------------------------------------------------------------------------------------ *)
(* 2. the loop can always empty the graveyard by itself                                         *)

Definition freed (k : conn) : conn :=
  {| k_rec := AFreed; k_stream := k_stream k; k_registered := k_registered k; k_in_flight := k_in_flight k;
     k_closed := k_closed k; k_pending := k_pending k; k_peer_closed := k_peer_closed k; k_jobs := k_jobs k;
     k_in_batch := k_in_batch k; k_grave := false; k_answered := k_answered k; k_taken := k_taken k |}.
Definition sweep (k : conn) : conn := if k_grave k then freed k else k.
Definition no_events (l : list conn) : bool := forallb (fun k => negb (k_in_batch k)) l.

Lemma step_free_ok : forall s c k, e_loop s = EBatch -> no_events (e_conns s) = true ->
  nth_error (e_conns s) c = Some k -> k_grave k = true ->
  step s (LFree c) = Some {| e_conns := set_nth (e_conns s) c (freed k); e_loop := EBatch |}.
Proof.
  intros s c k Hl Hb Hn Hg. unfold no_events in Hb.
  unfold step. rewrite Hl, Hb. cbn [negb]. unfold with_conn. rewrite Hn. cbn beta iota. rewrite Hg, Hl. reflexivity.
Qed.

Lemma step_batchend_ok : forall s, e_loop s = EBatch -> no_events (e_conns s) = true ->
  step s LBatchEnd = Some {| e_conns := e_conns s; e_loop := EWaiting |}.
Proof.
  intros s Hl Hb. unfold no_events in Hb. unfold step. rewrite Hl, Hb. reflexivity.
Qed.

Lemma wait_nil_conns : forall (g : conn -> conn) (l : list conn) a,
  map (fun ck : nat * conn => let '(i, k) := ck in if existsb (Nat.eqb i) [] then g k else k)
      (combine (seq a (length l)) l) = l.
Proof.
  intros g l. induction l as [|k r IH]; intros a.
  - reflexivity.
  - cbn [length seq combine map existsb]. rewrite IH. reflexivity.
Qed.

(* epoll_wait's timeout: the loop can always wake up with no event *)
Lemma step_wait_nil : forall s, e_loop s = EWaiting ->
  step s (LWait []) = Some {| e_conns := e_conns s; e_loop := EBatch |}.
Proof.
  intros s Hl. unfold step. rewrite Hl. cbn [all_distinct forallb andb].
  rewrite (wait_nil_conns _ (e_conns s) 0). reflexivity.
Qed.

Lemma no_events_waiting : forall s, reachable s -> e_loop s = EWaiting -> no_events (e_conns s) = true.
Proof.
  intros s Hreach Hl. apply forallb_forall. intros k Hin.
  apply In_nth_error in Hin. destruct Hin as [c Hn].
  destruct (reachable_mk s c k Hreach Hn) as [m [p [peer [b [a [Hk Hinb]]]]]]. subst k. cbn [mk k_in_batch].
  destruct b; [|reflexivity]. destruct (Hinb eq_refl) as [Hx _]. rewrite Hl in Hx. discriminate Hx.
Qed.

Lemma no_events_set_freed : forall l c k, no_events l = true -> nth_error l c = Some k ->
  no_events (set_nth l c (freed k)) = true.
Proof.
  intros l. induction l as [|y r IH]; intros c k Hb Hn.
  - destruct c; discriminate Hn.
  - unfold no_events in *. cbn [forallb] in Hb. apply andb_true_iff in Hb. destruct Hb as [Hy Hr].
    destruct c as [|c]; cbn [nth_error] in Hn; cbn [set_nth forallb].
    + inversion Hn; subst y. cbn [freed k_in_batch]. rewrite Hy, Hr. reflexivity.
    + rewrite Hy. cbn [andb]. exact (IH c k Hr Hn).
Qed.

(* the two cases of the property: a record in the graveyard can be freed by the loop alone *)
Theorem reclaim_enabled : forall tr s c k, run ep_init tr = Some s -> nth_error (e_conns s) c = Some k ->
  k_grave k = true ->
  match e_loop s with
  | EWaiting => exists s', run s [LWait []; LFree c; LBatchEnd] = Some s' /\ rec_live s' c = false /\ e_loop s' = EWaiting
  | EBatch => forallb (fun k => negb (k_in_batch k)) (e_conns s) = true ->
              exists s', step s (LFree c) = Some s' /\ rec_live s' c = false
  end.
Proof.
  intros tr s c k Hrun Hn Hg.
  assert (Hreach : reachable s) by (exists tr; exact Hrun).
  destruct (e_loop s) eqn:Hl.
  - pose proof (no_events_waiting s Hreach Hl) as Hb.
    eexists. cbn [run]. rewrite (step_wait_nil s Hl).
    rewrite (step_free_ok {| e_conns := e_conns s; e_loop := EBatch |} c k eq_refl Hb Hn Hg). cbn [e_conns].
    rewrite step_batchend_ok; [| reflexivity | cbn [e_conns]; apply no_events_set_freed; assumption ].
    split; [reflexivity|]. split; [|reflexivity].
    unfold rec_live, conn_of. cbn [e_conns]. rewrite (nth_error_set_nth_eq _ _ _ _ Hn). reflexivity.
  - intro Hb. eexists. rewrite (step_free_ok s c k Hl Hb Hn Hg). split; [reflexivity|].
    unfold rec_live, conn_of. cbn [e_conns]. rewrite (nth_error_set_nth_eq _ _ _ _ Hn). reflexivity.
Qed.

(* one wake-up empties the graveyard: the explicit trace *)
Definition in_graveyard (s : estate) (c : nat) : bool :=
  match nth_error (e_conns s) c with Some k => k_grave k | None => false end.
Definition graves (s : estate) : list nat := filter (in_graveyard s) (seq 0 (length (e_conns s))).
Definition reclaim_trace (s : estate) : list elabel := LWait [] :: map LFree (graves s) ++ [LBatchEnd].

Lemma graves_spec : forall s c, In c (graves s) <-> exists k, nth_error (e_conns s) c = Some k /\ k_grave k = true.
Proof.
  intros s c. unfold graves. rewrite filter_In, in_seq. unfold in_graveyard. split.
  - intros [_ Hg]. destruct (nth_error (e_conns s) c) as [k|]; [|discriminate Hg]. exists k. split; [reflexivity|exact Hg].
  - intros [k [Hn Hg]]. split.
    + assert (Hlt : c < length (e_conns s)) by (apply nth_error_Some; rewrite Hn; intro Hx; discriminate Hx). lia.
    + rewrite Hn. exact Hg.
Qed.

Lemma graves_nodup : forall s, NoDup (graves s).
Proof. intros s. unfold graves. apply NoDup_filter. apply seq_NoDup. Qed.

(* exactly one LFree per graveyard entry, nothing else between the wake-up and the end of the batch *)
Lemma reclaim_trace_frees : forall s c,
  cnt (isfree c) (reclaim_trace s) = if in_graveyard s c then 1 else 0.
Proof.
  intros s c. unfold reclaim_trace. rewrite cnt_cons, cnt_app. cbn [isfree bn Nat.add].
  replace (cnt (isfree c) [LBatchEnd]) with 0 by reflexivity. rewrite Nat.add_0_r.
  assert (Hgen : forall l, NoDup l -> cnt (isfree c) (map LFree l) = bn (existsb (Nat.eqb c) l)).
  { intros l. induction l as [|x r IH]; intros Hnd.
    - reflexivity.
    - inversion Hnd as [|x0 r0 Hnotin Hnd']; subst. cbn [map existsb]. rewrite cnt_cons. cbn [isfree].
      rewrite (IH Hnd'). destruct (Nat.eqb c x) eqn:He.
      + apply Nat.eqb_eq in He. subst x. cbn [orb bn].
        destruct (existsb (Nat.eqb c) r) eqn:Hex; [|reflexivity].
        exfalso. apply Hnotin. apply existsb_eqb_In. exact Hex.
      + reflexivity. }
  rewrite (Hgen _ (graves_nodup s)).
  destruct (in_graveyard s c) eqn:Hg.
  - assert (Hin : In c (graves s)).
    { apply graves_spec. unfold in_graveyard in Hg. destruct (nth_error (e_conns s) c) as [k|]; [|discriminate Hg].
      exists k. split; [reflexivity | exact Hg]. }
    rewrite (In_existsb_eqb c _ Hin). reflexivity.
  - destruct (existsb (Nat.eqb c) (graves s)) eqn:Hex; [|reflexivity].
    apply existsb_eqb_In in Hex. apply graves_spec in Hex. destruct Hex as [k [Hn Hk]].
    unfold in_graveyard in Hg. rewrite Hn, Hk in Hg. discriminate Hg.
Qed.

Lemma set_nth_app_here : forall {A} (pre : list A) y r x,
  set_nth (pre ++ y :: r) (length pre) x = pre ++ x :: r.
Proof.
  intros A pre. induction pre as [|z pre IH]; intros y r x.
  - reflexivity.
  - cbn [app length set_nth]. rewrite IH. reflexivity.
Qed.

Lemma nth_error_app_here : forall {A} (pre : list A) y r, nth_error (pre ++ y :: r) (length pre) = Some y.
Proof.
  intros A pre y r. rewrite nth_error_app2 by lia. rewrite Nat.sub_diag. reflexivity.
Qed.

Lemma app_cons_snoc : forall {A} (pre : list A) y r, pre ++ y :: r = (pre ++ [y]) ++ r.
Proof. intros A pre y r. rewrite <- app_assoc. reflexivity. Qed.

Lemma length_snoc : forall {A} (pre : list A) y, length (pre ++ [y]) = S (length pre).
Proof. intros A pre y. rewrite app_length. cbn [length]. lia. Qed.

(* the graveyard entries at or after position [length pre], in index order *)
Lemma run_frees : forall l pre,
  no_events (pre ++ l) = true ->
  run {| e_conns := pre ++ l; e_loop := EBatch |}
      (map LFree (filter (in_graveyard {| e_conns := pre ++ l; e_loop := EBatch |}) (seq (length pre) (length l))))
  = Some {| e_conns := pre ++ map sweep l; e_loop := EBatch |}.
Proof.
  intros l. induction l as [|k r IH]; intros pre Hb.
  - reflexivity.
  - cbn [length seq filter]. unfold in_graveyard at 1. cbn [e_conns]. rewrite nth_error_app_here.
    assert (Hfilter : forall x,
              filter (in_graveyard {| e_conns := pre ++ k :: r; e_loop := EBatch |}) (seq (S (length pre)) (length r)) =
              filter (in_graveyard {| e_conns := (pre ++ [x]) ++ r; e_loop := EBatch |}) (seq (S (length pre)) (length r))).
    { intros x. apply filter_ext_in. intros c Hin. apply in_seq in Hin. unfold in_graveyard. cbn [e_conns].
      rewrite <- app_cons_snoc.
      rewrite (nth_error_app2 pre (k :: r)) by lia. rewrite (nth_error_app2 pre (x :: r)) by lia.
      destruct (c - length pre) as [|d] eqn:Hd; [lia|]. reflexivity. }
    destruct (k_grave k) eqn:Hg.
    + cbn [map run].
      rewrite (step_free_ok {| e_conns := pre ++ k :: r; e_loop := EBatch |} (length pre) k eq_refl Hb
                 (nth_error_app_here pre k r) Hg).
      cbn [e_conns]. rewrite set_nth_app_here.
      rewrite (Hfilter (freed k)). rewrite app_cons_snoc. rewrite <- (length_snoc pre (freed k)).
      rewrite IH.
      * cbn [map]. unfold sweep at 2. rewrite Hg. rewrite <- app_cons_snoc. reflexivity.
      * rewrite <- app_cons_snoc. rewrite <- (set_nth_app_here pre k r (freed k)).
        apply no_events_set_freed; [exact Hb | apply nth_error_app_here].
    + rewrite (Hfilter k). rewrite <- (length_snoc pre k).
      assert (Heq : {| e_conns := pre ++ k :: r; e_loop := EBatch |} = {| e_conns := (pre ++ [k]) ++ r; e_loop := EBatch |})
        by (rewrite <- app_cons_snoc; reflexivity).
      rewrite Heq. rewrite IH.
      * cbn [map]. unfold sweep at 2. rewrite Hg. rewrite <- app_cons_snoc. reflexivity.
      * rewrite <- app_cons_snoc. exact Hb.
Qed.

Lemma no_events_sweep : forall l, no_events l = true -> no_events (map sweep l) = true.
Proof.
  intros l. unfold no_events. induction l as [|k r IH]; intros Hb.
  - reflexivity.
  - cbn [forallb] in Hb. apply andb_true_iff in Hb. destruct Hb as [Hk Hr].
    cbn [map forallb]. rewrite (IH Hr), andb_true_r.
    unfold sweep. destruct (k_grave k); [cbn [freed k_in_batch]|]; exact Hk.
Qed.

(* the state after the wake-up, exactly: every graveyard entry freed, nothing else changed *)
Theorem reclaim_run : forall tr s, run ep_init tr = Some s -> e_loop s = EWaiting ->
  run s (reclaim_trace s) = Some {| e_conns := map sweep (e_conns s); e_loop := EWaiting |}.
Proof.
  intros tr s Hrun Hl.
  assert (Hreach : reachable s) by (exists tr; exact Hrun).
  pose proof (no_events_waiting s Hreach Hl) as Hb.
  unfold reclaim_trace. cbn [run]. rewrite (step_wait_nil s Hl). rewrite run_app_gen.
  pose proof (run_frees (e_conns s) [] Hb) as Hfrees. cbn [app length] in Hfrees.
  unfold graves.
  replace (in_graveyard s) with (in_graveyard {| e_conns := e_conns s; e_loop := EBatch |}) by reflexivity.
  rewrite Hfrees. cbn [run].
  rewrite step_batchend_ok; [reflexivity | reflexivity |].
  cbn [e_conns]. apply no_events_sweep. exact Hb.
Qed.

Lemma graveyard_empty_sweep : forall l, forallb (fun k => negb (k_grave k)) (map sweep l) = true.
Proof.
  intros l. induction l as [|k r IH]; [reflexivity|].
  cbn [map forallb]. rewrite IH, andb_true_r.
  unfold sweep. destruct (k_grave k) eqn:Hg; [reflexivity | rewrite Hg; reflexivity].
Qed.

Theorem reclaim_sweep : forall tr s, run ep_init tr = Some s -> e_loop s = EWaiting ->
  exists s', run s (reclaim_trace s) = Some s' /\ graveyard_empty s' = true /\ e_loop s' = EWaiting.
Proof.
  intros tr s Hrun Hl. eexists. split; [exact (reclaim_run tr s Hrun Hl)|].
  split; [|reflexivity]. unfold graveyard_empty. cbn [e_conns]. apply graveyard_empty_sweep.
Qed.

(* ------------------------------------------------------------------------------------------ *)
(* 3. after the connections have ended nothing remains held                                     *)

Lemma all_ended_waiting : forall s, all_ended s = true -> e_loop s = EWaiting.
Proof. intros s Hend. unfold all_ended in Hend. destruct (e_loop s); [reflexivity | discriminate Hend]. Qed.

Lemma all_ended_sweep : forall s, all_ended s = true ->
  all_ended {| e_conns := map sweep (e_conns s); e_loop := EWaiting |} = true.
Proof.
  intros s Hend. unfold all_ended in *. cbn [e_loop e_conns].
  destruct (e_loop s); [|discriminate Hend].
  induction (e_conns s) as [|k r IH]; [reflexivity|].
  cbn [forallb] in Hend. apply andb_true_iff in Hend. destruct Hend as [Hk Hr].
  cbn [map forallb]. rewrite (IH Hr), andb_true_r.
  unfold sweep. destruct (k_grave k); [cbn [freed k_jobs k_registered]|]; exact Hk.
Qed.

Theorem all_ended_reclaimed : forall tr s, run ep_init tr = Some s -> all_ended s = true ->
  exists s', run s (reclaim_trace s) = Some s' /\
             all_ended s' = true /\ graveyard_empty s' = true /\ live_records s' = 0 /\ open_streams s' = 0.
Proof.
  intros tr s Hrun Hend.
  pose proof (all_ended_waiting s Hend) as Hl.
  pose proof (reclaim_run tr s Hrun Hl) as Hrec.
  pose proof (all_ended_sweep s Hend) as Hend'.
  assert (Hge : graveyard_empty {| e_conns := map sweep (e_conns s); e_loop := EWaiting |} = true)
    by (unfold graveyard_empty; cbn [e_conns]; apply graveyard_empty_sweep).
  assert (Hrun' : run ep_init (tr ++ reclaim_trace s) = Some {| e_conns := map sweep (e_conns s); e_loop := EWaiting |})
    by (rewrite run_app_gen, Hrun; exact Hrec).
  eexists. split; [exact Hrec|]. split; [exact Hend'|]. split; [exact Hge|]. split.
  - exact (no_leak _ _ Hrun' Hend' Hge).
  - exact (no_open_streams _ _ Hrun' Hend').
Qed.

(* ------------------------------------------------------------------------------------------ *)
(* 4. what is freed is dead, and is never touched again                                         *)

Theorem freed_only_from_graveyard : forall tr s c s', run ep_init tr = Some s -> step s (LFree c) = Some s' ->
  e_loop s = EBatch /\ forallb (fun k => negb (k_in_batch k)) (e_conns s) = true /\
  exists k, nth_error (e_conns s) c = Some k /\ k_grave k = true /\
            k_rec k = ALive /\ k_registered k = false /\ k_stream k = false /\ k_closed k = true /\
            k_jobs k = [] /\ k_in_batch k = false.
Proof.
  intros tr s c s' Hrun Hstep. unfold step in Hstep.
  destruct (e_loop s) eqn:Hl; [discriminate Hstep|].
  destruct (forallb (fun k => negb (k_in_batch k)) (e_conns s)) eqn:Hb; [|discriminate Hstep].
  cbn [negb] in Hstep. apply with_conn_inv in Hstep. destruct Hstep as [k [k' [Hn [Hf _]]]].
  split; [reflexivity|]. split; [reflexivity|]. exists k. split; [exact Hn|].
  destruct (k_grave k) eqn:Hg; [|discriminate Hf]. split; [reflexivity|].
  destruct (graveyard_is_dead tr s c k Hrun Hn Hg) as [H1 [H2 [H3 [H4 H5]]]].
  repeat (split; [assumption|]).
  pose proof (proj1 (forallb_forall _ _) Hb k (nth_error_In _ _ Hn)) as Hk. cbn beta in Hk.
  apply negb_true_iff in Hk. exact Hk.
Qed.

(* the labels whose code dereferences (or frees) the record of connection c *)
Definition accesses (l : elabel) (c : nat) : bool :=
  match l with
  | LEvent c' _ | LFree c' | LJobStart c' | LRearm c' | LDel c' | LStreamDrop c' | LClosedStore c' | LGrave c' => Nat.eqb c c'
  | LAccept _ | LClientSend _ | LClientClose _ | LWait _ | LBatchEnd => false
  end.

(* [all_steps_safe], read per record: an enabled step that touches the record of c finds it allocated *)
Theorem freed_never_accessed : forall tr s l s' c, run ep_init tr = Some s -> step s l = Some s' ->
  accesses l c = true -> rec_live s c = true.
Proof.
  intros tr s l s' c Hrun Hstep Hacc.
  pose proof (all_steps_safe tr s l s' Hrun Hstep) as Hsafe.
  destruct l as [ok|c0|c0|batch|c0 o|c0| |c0|c0|c0|c0|c0|c0]; cbn [accesses] in Hacc; try discriminate Hacc;
    apply Nat.eqb_eq in Hacc; subst c0; cbn [safe] in Hsafe;
    try exact Hsafe; apply andb_true_iff in Hsafe; exact (proj1 Hsafe).
Qed.

Lemma mstep_freed : forall l m p peer b a m' p' peer' b' a',
  m_rec m = AFreed -> mstep l m p peer b a = Some (m', p', peer', b', a') -> m' = m.
Proof.
  intros l m p peer b a m' p' peer' b' a' Hfr Hm.
  destruct l as [ok|c0|c0|batch|c0 o|c0| |c0|c0|c0|c0|c0|c0]; cbn [mstep] in Hm; try discriminate Hm.
  - destruct peer; [discriminate Hm|]. inversion Hm. reflexivity.
  - inversion Hm. reflexivity.
  - destruct b; [|discriminate Hm]. destruct m; try discriminate Hfr; destruct o; discriminate Hm.
  - destruct m; try discriminate Hm; discriminate Hfr.
  - destruct m; try discriminate Hm; discriminate Hfr.
  - destruct m; try discriminate Hm; discriminate Hfr.
  - destruct m; try discriminate Hm; discriminate Hfr.
  - destruct m; try discriminate Hm; discriminate Hfr.
  - destruct m; try discriminate Hm; discriminate Hfr.
  - destruct m; try discriminate Hm; discriminate Hfr.
Qed.

Lemma step_freed : forall s l s' c k, reachable s -> step s l = Some s' ->
  nth_error (e_conns s) c = Some k -> k_rec k = AFreed ->
  exists k', nth_error (e_conns s') c = Some k' /\ k_rec k' = AFreed.
Proof.
  intros s l s' c k Hreach Hstep Hn Hfr.
  destruct (target l) as [c0|] eqn:Ht.
  - destruct (step_conn s l c0 s' Hreach Ht Hstep)
      as (m & p & peer & b & a & m' & p' & peer' & b' & a' & Hn0 & _ & _ & Hm & Hs').
    subst s'. destruct (Nat.eq_dec c c0) as [Heq|Hneq].
    + subst c0. rewrite Hn in Hn0. inversion Hn0; subst k; clear Hn0. cbn [mk k_rec] in Hfr.
      assert (Hmm : m' = m) by (eapply mstep_freed; eassumption). subst m'.
      exists (mk m p' peer' b' a'). split; [cbn [e_conns]; eapply nth_error_set_nth_eq; exact Hn | exact Hfr].
    + exists k. split; [rewrite (target_other l c0 c Ht Hneq); exact Hn | exact Hfr].
  - destruct l as [ok|c0|c0|batch|c0 o|c0| |c0|c0|c0|c0|c0|c0]; try discriminate Ht.
    + apply step_accept in Hstep. subst s'. exists k. split; [|exact Hfr].
      cbn [e_conns]. rewrite nth_error_snoc_new, Hn. reflexivity.
    + apply step_wait in Hstep. destruct Hstep as [_ [_ [_ Hnth]]]. rewrite Hnth, Hn.
      eexists. split; [reflexivity|]. destruct (existsb (Nat.eqb c) batch); exact Hfr.
    + apply step_batchend in Hstep. destruct Hstep as [_ [Hs' _]]. subst s'.
      exists k. split; [exact Hn | exact Hfr].
Qed.

(* a freed record stays freed (connection indices are never reused) *)
Theorem freed_forever : forall tr2 s s' c k, reachable s -> run s tr2 = Some s' ->
  nth_error (e_conns s) c = Some k -> k_rec k = AFreed ->
  exists k', nth_error (e_conns s') c = Some k' /\ k_rec k' = AFreed.
Proof.
  intros tr2. induction tr2 as [|l r IH]; intros s s' c k Hreach Hrun Hn Hfr.
  - cbn [run] in Hrun. inversion Hrun; subst s'. exists k. split; assumption.
  - apply run_cons in Hrun. destruct Hrun as [s1 [Hstep Hrun]].
    destruct (step_freed s l s1 c k Hreach Hstep Hn Hfr) as [k1 [Hn1 Hfr1]].
    exact (IH s1 s' c k1 (reachable_step s l s1 Hreach Hstep) Hrun Hn1 Hfr1).
Qed.

(* "never accessed after being freed": in an execution that contains LFree c, no later step - whatever the
   interleaving - touches the record of c *)
Theorem no_access_after_free : forall tr c tr2 s l s',
  run ep_init (tr ++ LFree c :: tr2) = Some s -> step s l = Some s' -> accesses l c = false.
Proof.
  intros tr c tr2 s l s' Hrun Hstep.
  pose proof Hrun as Hrun0.
  apply run_split in Hrun0. destruct Hrun0 as [s0 [Hr0 Hrun0]].
  apply run_cons in Hrun0. destruct Hrun0 as [s1 [Hfree Hr2]].
  assert (Hreach0 : reachable s0) by (exists tr; exact Hr0).
  destruct (step_conn s0 (LFree c) c s1 Hreach0 eq_refl Hfree)
    as (m & p & peer & b & a & m' & p' & peer' & b' & a' & Hn0 & _ & _ & Hm & Hs1).
  cbn [mstep] in Hm. destruct m; try discriminate Hm. inversion Hm; subst m' p' peer' b' a'; clear Hm.
  assert (Hn1 : nth_error (e_conns s1) c = Some (mk M8 p peer b a))
    by (subst s1; cbn [e_conns]; eapply nth_error_set_nth_eq; exact Hn0).
  destruct (freed_forever tr2 s1 s c _ (reachable_step s0 _ s1 Hreach0 Hfree) Hr2 Hn1 eq_refl) as [k' [Hn' Hfr']].
  destruct (accesses l c) eqn:Hacc; [|reflexivity].
  pose proof (freed_never_accessed _ s l s' c Hrun Hstep Hacc) as Hlive.
  unfold rec_live, conn_of in Hlive. rewrite Hn', Hfr' in Hlive. discriminate Hlive.
Qed.

(* ------------------------------------------------------------------------------------------ *)
(* concrete instances                                                                           *)

(* the loop does not free under a stale event: record 0 is in the graveyard, its event is still in the batch *)
Example ex_free_waits_for_batch :
  match run ep_init [LAccept true; LClientSend 0; LWait [0]; LEvent 0 ODispatched; LBatchEnd; LClientClose 0; LWait [0]; LJobStart 0;
                     LDel 0; LStreamDrop 0; LClosedStore 0; LGrave 0] with
  | Some s => match step s (LFree 0) with Some _ => false | None => true end &&
              match run s [LEvent 0 OStale; LFree 0; LBatchEnd] with
              | Some s' => Nat.eqb (live_records s') 0 && all_ended s'
              | None => false
              end
  | None => false
  end = true.
Proof. vm_compute. reflexivity. Qed.

Print Assumptions no_leak.
Print Assumptions reclaim_enabled.
Print Assumptions reclaim_trace_frees.
Print Assumptions reclaim_run.
Print Assumptions reclaim_sweep.
Print Assumptions all_ended_reclaimed.
Print Assumptions freed_only_from_graveyard.
Print Assumptions freed_never_accessed.
Print Assumptions freed_forever.
Print Assumptions no_access_after_free.
