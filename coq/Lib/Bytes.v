(* Shared byte-string utilities.  Stdlib only, so that extraction stays within ExtrOcamlBasic. *)
From Coq Require Export ZArith NArith List Bool Lia.
From Coq Require Export Strings.Byte.
From Coq Require Import Strings.String Strings.Ascii.
Export ListNotations.
Export Coq.Strings.String.StringSyntax.

Definition bytes := list byte.

(* numeric value of a byte, 0..255 *)
Definition b2n (b : byte) : N := Byte.to_N b.
Definition b2z (b : byte) : Z := Z.of_N (Byte.to_N b).

(* the byte whose value is [z mod 256] (Rust's [as u8]) *)
Definition n2b (n : N) : byte :=
  match Byte.of_N (n mod 256)%N with Some b => b | None => x00 end.
Definition z2b (z : Z) : byte := n2b (Z.to_N (z mod 256)%Z).

(* byte-string literal: [bs "GET "] *)
Definition bs (s : string) : bytes := list_byte_of_string s.
Arguments bs s%string.

Definition beqb (a b : byte) : bool := Byte.eqb a b.

Fixpoint bytes_eqb (a b : bytes) : bool :=
  match a, b with
  | [], [] => true
  | x :: a', y :: b' => Byte.eqb x y && bytes_eqb a' b'
  | _, _ => false
  end.

(* the 256 byte values, for exhaustive sweeps *)
Definition all_bytes : list byte :=
  map n2b (map N.of_nat (seq 0 256)).

(* ASCII classes, written as numeric ranges *)
Definition is_upper (b : byte) : bool := ((65 <=? b2n b) && (b2n b <=? 90))%N.
Definition is_lower (b : byte) : bool := ((97 <=? b2n b) && (b2n b <=? 122))%N.
Definition is_alpha (b : byte) : bool := is_upper b || is_lower b.
Definition is_digit (b : byte) : bool := ((48 <=? b2n b) && (b2n b <=? 57))%N.
Definition is_ascii (b : byte) : bool := (b2n b <? 128)%N.
(* visible ASCII 0x21..0x7E *)
Definition is_vchar (b : byte) : bool := ((33 <=? b2n b) && (b2n b <=? 126))%N.
(* Rust's u8::is_ascii_whitespace: HT LF FF CR SP *)
Definition is_ascii_ws (b : byte) : bool :=
  match b with x09 | x0a | x0c | x0d | x20 => true | _ => false end.
(* OWS of RFC 9110: SP / HTAB *)
Definition is_ows (b : byte) : bool :=
  match b with x09 | x20 => true | _ => false end.

Definition to_lower (b : byte) : byte :=
  if is_upper b then n2b (b2n b + 32) else b.

(* Rust's eq_ignore_ascii_case on byte strings *)
Fixpoint eq_ic (a b : bytes) : bool :=
  match a, b with
  | [], [] => true
  | x :: a', y :: b' => Byte.eqb (to_lower x) (to_lower y) && eq_ic a' b'
  | _, _ => false
  end.

Fixpoint drop_while {A} (p : A -> bool) (l : list A) : list A :=
  match l with
  | [] => []
  | x :: r => if p x then drop_while p r else l
  end.

Definition trim_start (p : byte -> bool) (l : bytes) : bytes := drop_while p l.
(* linear-time reversal (List.rev extracts to a quadratic function: a 64 KiB line would take minutes) *)
Definition frev {A : Type} (l : list A) : list A := rev_append l [].
Lemma frev_eq {A : Type} (l : list A) : frev l = rev l.
Proof. unfold frev. symmetry. apply rev_alt. Qed.
Definition trim_end (p : byte -> bool) (l : bytes) : bytes := rev (drop_while p (rev l)).
Definition trim_both (p : byte -> bool) (l : bytes) : bytes := trim_end p (trim_start p l).

(* split on a separator byte: Rust's slice::split — always at least one piece *)
Fixpoint split_on (sep : byte) (l : bytes) : list bytes :=
  match l with
  | [] => [[]]
  | x :: r =>
      if Byte.eqb x sep then [] :: split_on sep r
      else match split_on sep r with
           | [] => [[x]]      (* unreachable: split_on is never empty *)
           | p :: ps => (x :: p) :: ps
           end
  end.

(* position of the first byte satisfying p *)
Fixpoint find_index {A} (p : A -> bool) (l : list A) : option nat :=
  match l with
  | [] => None
  | x :: r => if p x then Some O else option_map S (find_index p r)
  end.

Fixpoint is_prefix (p l : bytes) : bool :=
  match p, l with
  | [], _ => true
  | x :: p', y :: l' => Byte.eqb x y && is_prefix p' l'
  | _ :: _, [] => false
  end.

(* strip_prefix *)
Fixpoint strip_prefix (p l : bytes) : option bytes :=
  match p, l with
  | [], _ => Some l
  | x :: p', y :: l' => if Byte.eqb x y then strip_prefix p' l' else None
  | _ :: _, [] => None
  end.

(* decimal rendering of a natural number, most significant digit first, no padding *)
Definition digit_byte (d : N) : byte := n2b (48 + d).

Lemma byte_eqb_eq a b : Byte.eqb a b = true <-> a = b.
Proof. split; [apply Byte.byte_dec_bl | apply Byte.byte_dec_lb]. Qed.
