(* Word-at-a-time (SWAR) block tests of /repo/src/parser/simd.rs, modelled at word level exactly as
   written (little-endian usize, wrapping_sub = subtraction mod 2^64, `!x` = xor with all-ones), for a
   word of n bytes (the code is the instance n = 8), and the theorem that each block test returns
   the index of the first offending byte — for every word.  *)
From Coq Require Import ZArith Lia List Bool.
Import ListNotations.
Local Open Scope Z_scope.

Definition b0 (z : Z) := z mod 256.
Definition rs (z : Z) := z / 256.

Lemma b0_land u v : b0 (Z.land u v) = Z.land (b0 u) (b0 v).
Proof. unfold b0. change 256 with (2^8). rewrite <- !Z.land_ones by lia.
  apply Z.bits_inj'; intros n Hn. rewrite !Z.land_spec.
  destruct (Z.testbit u n), (Z.testbit v n), (Z.testbit (Z.ones 8) n); reflexivity. Qed.
Lemma b0_lor u v : b0 (Z.lor u v) = Z.lor (b0 u) (b0 v).
Proof. unfold b0. change 256 with (2^8). rewrite <- !Z.land_ones by lia.
  apply Z.bits_inj'; intros n Hn. rewrite !Z.land_spec, !Z.lor_spec, !Z.land_spec.
  destruct (Z.testbit u n), (Z.testbit v n), (Z.testbit (Z.ones 8) n); reflexivity. Qed.
Lemma b0_lxor u v : b0 (Z.lxor u v) = Z.lxor (b0 u) (b0 v).
Proof. unfold b0. change 256 with (2^8). rewrite <- !Z.land_ones by lia.
  apply Z.bits_inj'; intros n Hn. rewrite !Z.land_spec, !Z.lxor_spec, !Z.land_spec.
  destruct (Z.testbit u n), (Z.testbit v n), (Z.testbit (Z.ones 8) n); reflexivity. Qed.
Lemma rs_land u v : rs (Z.land u v) = Z.land (rs u) (rs v).
Proof. unfold rs. change 256 with (2^8). rewrite <- !Z.shiftr_div_pow2 by lia. apply Z.shiftr_land. Qed.
Lemma rs_lor u v : rs (Z.lor u v) = Z.lor (rs u) (rs v).
Proof. unfold rs. change 256 with (2^8). rewrite <- !Z.shiftr_div_pow2 by lia. apply Z.shiftr_lor. Qed.
Lemma rs_lxor u v : rs (Z.lxor u v) = Z.lxor (rs u) (rs v).
Proof. unfold rs. change 256 with (2^8). rewrite <- !Z.shiftr_div_pow2 by lia. apply Z.shiftr_lxor. Qed.

(* wrapping subtraction on an (n+1)-byte word, peeled into low byte and rest with borrow *)
Lemma b0_wsub x s P : 0 < P -> b0 ((x - s) mod (256 * P)) = (b0 x - b0 s) mod 256.
Proof.
  intros HP. unfold b0.
  rewrite Z.rem_mul_r by lia.
  rewrite (Z.mul_comm 256 (_ mod P)), Z_mod_plus_full, Z.mod_mod by lia.
  apply Zminus_mod.
Qed.
Lemma rs_wsub x s P : 0 < P -> 0 <= s ->
  rs ((x - s) mod (256 * P)) = (rs x - rs s - (if b0 x <? b0 s then 1 else 0)) mod P.
Proof.
  intros HP Hs. unfold rs, b0.
  rewrite Z.rem_mul_r by lia.
  rewrite (Z.mul_comm 256 (_ mod P)), Z.div_add by lia.
  rewrite (Z.div_small ((x - s) mod 256)) by (apply Z.mod_pos_bound; lia).
  rewrite Z.add_0_l. f_equal.
  pose proof (Z.div_mod x 256 ltac:(lia)). pose proof (Z.div_mod s 256 ltac:(lia)).
  pose proof (Z.mod_pos_bound x 256 ltac:(lia)). pose proof (Z.mod_pos_bound s 256 ltac:(lia)).
  destruct (Z.ltb_spec (x mod 256) (s mod 256)).
  - symmetry. apply Z.div_unique with (r := x mod 256 - s mod 256 + 256); lia.
  - symmetry. apply Z.div_unique with (r := x mod 256 - s mod 256); lia.
Qed.

(* little-endian word of a byte list; uniform_block(c) *)
Fixpoint word_of (bs : list Z) : Z := match bs with [] => 0 | b :: r => b + 256 * word_of r end.
Fixpoint uni (n : nat) (c : Z) : Z := match n with O => 0 | S m => c + 256 * uni m c end.
Definition P256 (n : nat) := 256 ^ Z.of_nat n.
Lemma P256_pos n : 0 < P256 n. Proof. unfold P256. lia. Qed.
Lemma P256_S n : P256 (S n) = 256 * P256 n.
Proof. unfold P256. rewrite Nat2Z.inj_succ, Z.pow_succ_r by lia. reflexivity. Qed.

Lemma b0_cons b x : 0 <= b < 256 -> b0 (b + 256 * x) = b.
Proof. intros. unfold b0. rewrite Z.mul_comm, Z_mod_plus_full. apply Z.mod_small; lia. Qed.
Lemma rs_cons b x : 0 <= b < 256 -> rs (b + 256 * x) = x.
Proof. intros. unfold rs. rewrite Z.mul_comm, Z.div_add by lia. rewrite Z.div_small; lia. Qed.
Lemma uni_nonneg n c : 0 <= c -> 0 <= uni n c.
Proof. intros; induction n; cbn [uni]; lia. Qed.

(* offsetnz over to_ne_bytes (little endian): index of the first non-zero byte, n if none *)
Fixpoint offsetnz (n : nat) (h : Z) : nat :=
  match n with O => O | S m => if (b0 h =? 0) then S (offsetnz m (rs h)) else O end.

Definition all_bytes_z : list Z := map Z.of_nat (seq 0 256).
Lemma byte_sweep (f : Z -> bool) : forallb f all_bytes_z = true -> forall b, 0 <= b < 256 -> f b = true.
Proof. intros H b Hb. rewrite forallb_forall in H. apply H. unfold all_bytes_z.
  replace b with (Z.of_nat (Z.to_nat b)) by lia. apply in_map, in_seq. lia. Qed.

(* ------------------------------------------------------------------------------------------ *)
(* swar_match_uri_vectored block test:
     lt = x.wrapping_sub(BM) & !x;  y = x ^ DEL;  eq = y.wrapping_sub(ONE) & !y;
     hit = (lt | eq | x) & M128                                                                *)
Definition uri_hit (n : nat) (x : Z) : Z :=
  let lt := Z.land ((x - uni n 33) mod P256 n) (Z.lxor x (uni n 255)) in
  let y  := Z.lxor x (uni n 127) in
  let eq := Z.land ((y - uni n 1) mod P256 n) (Z.lxor y (uni n 255)) in
  Z.land (Z.lor (Z.lor lt eq) x) (uni n 128).

(* a byte the URI scanner stops at: not visible ASCII 0x21..0x7E *)
Definition uri_bad (b : Z) : bool := (b <? 33) || (b =? 127) || (128 <=? b).
Fixpoint find_first (bad : Z -> bool) (bs : list Z) : nat :=
  match bs with [] => O | b :: r => if bad b then O else S (find_first bad r) end.

Definition uri_lane (b : Z) : Z :=
  Z.land (Z.lor (Z.lor (Z.land ((b - 33) mod 256) (Z.lxor b 255))
                       (Z.land ((Z.lxor b 127 - 1) mod 256) (Z.lxor (Z.lxor b 127) 255))) b) 128.

Definition uri_lane_chk (b : Z) : bool :=
  if uri_bad b then negb (uri_lane b =? 0)
  else (uri_lane b =? 0) && negb (b <? 33) && negb (Z.lxor b 127 <? 1) && (Z.lxor b 127 <? 256) && (0 <=? Z.lxor b 127).
Lemma uri_lane_ok b : 0 <= b < 256 -> uri_lane_chk b = true.
Proof. apply byte_sweep. vm_compute. reflexivity. Qed.

Lemma b0_uri_hit n x b : 0 <= b < 256 -> b0 (uri_hit (S n) (b + 256 * x)) = uri_lane b.
Proof.
  intros Hb. unfold uri_hit, uri_lane. cbn [uni]. rewrite P256_S.
  rewrite b0_land, !b0_lor, !b0_land, !b0_lxor.
  rewrite !b0_wsub by apply P256_pos.
  rewrite !b0_lxor, !b0_cons by lia. reflexivity.
Qed.

Lemma rs_uri_hit_good n x b : 0 <= b < 256 -> uri_bad b = false ->
  rs (uri_hit (S n) (b + 256 * x)) = uri_hit n x.
Proof.
  intros Hb Hg. pose proof (uri_lane_ok b Hb) as L. unfold uri_lane_chk in L. rewrite Hg in L.
  rewrite !andb_true_iff, !negb_true_iff in L. destruct L as [[[[_ L1] L2] L3] L4].
  unfold uri_hit. cbn [uni]. rewrite P256_S.
  rewrite rs_land, !rs_lor, !rs_land, !rs_lxor.
  rewrite !rs_wsub by (try apply P256_pos; pose proof (uni_nonneg n 33); pose proof (uni_nonneg n 1); lia).
  rewrite !b0_lxor, !rs_lxor, !b0_cons, !rs_cons by lia.
  rewrite L1, L2. rewrite !Z.sub_0_r. reflexivity.
Qed.

Theorem uri_block_first_bad : forall bs n, length bs = n -> Forall (fun b => 0 <= b < 256) bs ->
  offsetnz n (uri_hit n (word_of bs)) = find_first uri_bad bs.
Proof.
  induction bs as [|b r IH]; intros n Hn Hok; subst n; cbn [length offsetnz find_first word_of].
  - reflexivity.
  - inversion Hok as [|? ? Hb Hr]; subst.
    rewrite b0_uri_hit by exact Hb.
    pose proof (uri_lane_ok b Hb) as L. unfold uri_lane_chk in L.
    destruct (uri_bad b) eqn:Hbad.
    + rewrite negb_true_iff in L. rewrite L. reflexivity.
    + rewrite !andb_true_iff in L. destruct L as [[[[L0 _] _] _] _]. rewrite L0.
      rewrite rs_uri_hit_good by assumption. f_equal. apply IH; [reflexivity|assumption].
Qed.

(* ------------------------------------------------------------------------------------------ *)
(* swar_match_path_vectored block test:
     yq = x ^ QQ; hq = yq.wrapping_sub(ONE) & !yq & M128;  ys = x ^ SP; hs = ... ; hit = hq | hs *)
Definition path_hit (n : nat) (x : Z) : Z :=
  let yq := Z.lxor x (uni n 63) in
  let hq := Z.land (Z.land ((yq - uni n 1) mod P256 n) (Z.lxor yq (uni n 255))) (uni n 128) in
  let ys := Z.lxor x (uni n 32) in
  let hs := Z.land (Z.land ((ys - uni n 1) mod P256 n) (Z.lxor ys (uni n 255))) (uni n 128) in
  Z.lor hq hs.

Definition path_stop (b : Z) : bool := (b =? 63) || (b =? 32).

Definition path_lane (b : Z) : Z :=
  Z.lor (Z.land (Z.land ((Z.lxor b 63 - 1) mod 256) (Z.lxor (Z.lxor b 63) 255)) 128)
        (Z.land (Z.land ((Z.lxor b 32 - 1) mod 256) (Z.lxor (Z.lxor b 32) 255)) 128).

Definition path_lane_chk (b : Z) : bool :=
  if path_stop b then negb (path_lane b =? 0)
  else (path_lane b =? 0) && negb (Z.lxor b 63 <? 1) && negb (Z.lxor b 32 <? 1) &&
       (0 <=? Z.lxor b 63) && (0 <=? Z.lxor b 32).
Lemma path_lane_ok b : 0 <= b < 256 -> path_lane_chk b = true.
Proof. apply byte_sweep. vm_compute. reflexivity. Qed.

Lemma b0_path_hit n x b : 0 <= b < 256 -> b0 (path_hit (S n) (b + 256 * x)) = path_lane b.
Proof.
  intros Hb. unfold path_hit, path_lane. cbn [uni]. rewrite P256_S.
  rewrite b0_lor, !b0_land, !b0_lxor.
  rewrite !b0_wsub by apply P256_pos.
  rewrite !b0_lxor, !b0_cons by lia. reflexivity.
Qed.

Lemma rs_path_hit_good n x b : 0 <= b < 256 -> path_stop b = false ->
  rs (path_hit (S n) (b + 256 * x)) = path_hit n x.
Proof.
  intros Hb Hg. pose proof (path_lane_ok b Hb) as L. unfold path_lane_chk in L. rewrite Hg in L.
  rewrite !andb_true_iff, !negb_true_iff in L. destruct L as [[[[_ L1] L2] L3] L4].
  unfold path_hit. cbn [uni]. rewrite P256_S.
  rewrite rs_lor, !rs_land, !rs_lxor.
  rewrite !rs_wsub by (try apply P256_pos; pose proof (uni_nonneg n 1); lia).
  rewrite !b0_lxor, !rs_lxor, !b0_cons, !rs_cons by lia.
  rewrite L1, L2. rewrite !Z.sub_0_r. reflexivity.
Qed.

Theorem path_block_first_stop : forall bs n, length bs = n -> Forall (fun b => 0 <= b < 256) bs ->
  offsetnz n (path_hit n (word_of bs)) = find_first path_stop bs.
Proof.
  induction bs as [|b r IH]; intros n Hn Hok; subst n; cbn [length offsetnz find_first word_of].
  - reflexivity.
  - inversion Hok as [|? ? Hb Hr]; subst.
    rewrite b0_path_hit by exact Hb.
    pose proof (path_lane_ok b Hb) as L. unfold path_lane_chk in L.
    destruct (path_stop b) eqn:Hbad.
    + rewrite negb_true_iff in L. rewrite L. reflexivity.
    + rewrite !andb_true_iff in L. destruct L as [[[[L0 _] _] _] _]. rewrite L0.
      rewrite rs_path_hit_good by assumption. f_equal. apply IH; [reflexivity|assumption].
Qed.

(* the instance the code uses, and its constants *)
Example consts8 : uni 8 33 = 0x2121212121212121 /\ uni 8 1 = 0x0101010101010101
  /\ uni 8 127 = 0x7f7f7f7f7f7f7f7f /\ uni 8 128 = 0x8080808080808080 /\ P256 8 = 2^64
  /\ uni 8 255 = 2^64 - 1 /\ uni 8 63 = 0x3f3f3f3f3f3f3f3f /\ uni 8 32 = 0x2020202020202020.
Proof. vm_compute. repeat split. Qed.
