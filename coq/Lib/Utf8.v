(* core::str::from_utf8 validity (RFC 3629: no overlong forms, no surrogates, at most U+10FFFF) *)
From KV Require Import Lib.Bytes.

Definition in_rng (b : byte) (lo hi : N) : bool := ((lo <=? b2n b) && (b2n b <=? hi))%N.
Definition cont (b : byte) : bool := in_rng b 128 191.

Fixpoint utf8_valid (l : bytes) : bool :=
  match l with
  | [] => true
  | b :: r =>
      if (b2n b <? 128)%N then utf8_valid r
      else if in_rng b 194 223 then
        match r with c1 :: r' => cont c1 && utf8_valid r' | _ => false end
      else if in_rng b 224 239 then
        match r with
        | c1 :: c2 :: r' =>
            (if N.eqb (b2n b) 224 then in_rng c1 160 191
             else if N.eqb (b2n b) 237 then in_rng c1 128 159
             else cont c1) && cont c2 && utf8_valid r'
        | _ => false
        end
      else if in_rng b 240 244 then
        match r with
        | c1 :: c2 :: c3 :: r' =>
            (if N.eqb (b2n b) 240 then in_rng c1 144 191
             else if N.eqb (b2n b) 244 then in_rng c1 128 143
             else cont c1) && cont c2 && cont c3 && utf8_valid r'
        | _ => false
        end
      else false
  end.
