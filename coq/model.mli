
val negb : bool -> bool

type nat =
| O
| S of nat

val option_map : ('a1 -> 'a2) -> 'a1 option -> 'a2 option

type ('a, 'b) sum =
| Inl of 'a
| Inr of 'b

val fst : ('a1 * 'a2) -> 'a1

val snd : ('a1 * 'a2) -> 'a2

val length : 'a1 list -> nat

val app : 'a1 list -> 'a1 list -> 'a1 list

type comparison =
| Eq
| Lt
| Gt

val compOpp : comparison -> comparison

val add : nat -> nat -> nat

val mul : nat -> nat -> nat

val sub : nat -> nat -> nat

type byte =
| X00
| X01
| X02
| X03
| X04
| X05
| X06
| X07
| X08
| X09
| X0a
| X0b
| X0c
| X0d
| X0e
| X0f
| X10
| X11
| X12
| X13
| X14
| X15
| X16
| X17
| X18
| X19
| X1a
| X1b
| X1c
| X1d
| X1e
| X1f
| X20
| X21
| X22
| X23
| X24
| X25
| X26
| X27
| X28
| X29
| X2a
| X2b
| X2c
| X2d
| X2e
| X2f
| X30
| X31
| X32
| X33
| X34
| X35
| X36
| X37
| X38
| X39
| X3a
| X3b
| X3c
| X3d
| X3e
| X3f
| X40
| X41
| X42
| X43
| X44
| X45
| X46
| X47
| X48
| X49
| X4a
| X4b
| X4c
| X4d
| X4e
| X4f
| X50
| X51
| X52
| X53
| X54
| X55
| X56
| X57
| X58
| X59
| X5a
| X5b
| X5c
| X5d
| X5e
| X5f
| X60
| X61
| X62
| X63
| X64
| X65
| X66
| X67
| X68
| X69
| X6a
| X6b
| X6c
| X6d
| X6e
| X6f
| X70
| X71
| X72
| X73
| X74
| X75
| X76
| X77
| X78
| X79
| X7a
| X7b
| X7c
| X7d
| X7e
| X7f
| X80
| X81
| X82
| X83
| X84
| X85
| X86
| X87
| X88
| X89
| X8a
| X8b
| X8c
| X8d
| X8e
| X8f
| X90
| X91
| X92
| X93
| X94
| X95
| X96
| X97
| X98
| X99
| X9a
| X9b
| X9c
| X9d
| X9e
| X9f
| Xa0
| Xa1
| Xa2
| Xa3
| Xa4
| Xa5
| Xa6
| Xa7
| Xa8
| Xa9
| Xaa
| Xab
| Xac
| Xad
| Xae
| Xaf
| Xb0
| Xb1
| Xb2
| Xb3
| Xb4
| Xb5
| Xb6
| Xb7
| Xb8
| Xb9
| Xba
| Xbb
| Xbc
| Xbd
| Xbe
| Xbf
| Xc0
| Xc1
| Xc2
| Xc3
| Xc4
| Xc5
| Xc6
| Xc7
| Xc8
| Xc9
| Xca
| Xcb
| Xcc
| Xcd
| Xce
| Xcf
| Xd0
| Xd1
| Xd2
| Xd3
| Xd4
| Xd5
| Xd6
| Xd7
| Xd8
| Xd9
| Xda
| Xdb
| Xdc
| Xdd
| Xde
| Xdf
| Xe0
| Xe1
| Xe2
| Xe3
| Xe4
| Xe5
| Xe6
| Xe7
| Xe8
| Xe9
| Xea
| Xeb
| Xec
| Xed
| Xee
| Xef
| Xf0
| Xf1
| Xf2
| Xf3
| Xf4
| Xf5
| Xf6
| Xf7
| Xf8
| Xf9
| Xfa
| Xfb
| Xfc
| Xfd
| Xfe
| Xff

val of_bits :
  (bool * (bool * (bool * (bool * (bool * (bool * (bool * bool))))))) -> byte

val to_bits :
  byte -> bool * (bool * (bool * (bool * (bool * (bool * (bool * bool))))))

type positive =
| XI of positive
| XO of positive
| XH

type n =
| N0
| Npos of positive

type z =
| Z0
| Zpos of positive
| Zneg of positive

val eqb : bool -> bool -> bool

module Nat :
 sig
  val eqb : nat -> nat -> bool

  val leb : nat -> nat -> bool

  val ltb : nat -> nat -> bool

  val min : nat -> nat -> nat
 end

module Pos :
 sig
  type mask =
  | IsNul
  | IsPos of positive
  | IsNeg
 end

module Coq_Pos :
 sig
  val succ : positive -> positive

  val add : positive -> positive -> positive

  val add_carry : positive -> positive -> positive

  val pred_double : positive -> positive

  val pred_N : positive -> n

  type mask = Pos.mask =
  | IsNul
  | IsPos of positive
  | IsNeg

  val succ_double_mask : mask -> mask

  val double_mask : mask -> mask

  val double_pred_mask : positive -> mask

  val sub_mask : positive -> positive -> mask

  val sub_mask_carry : positive -> positive -> mask

  val mul : positive -> positive -> positive

  val iter : ('a1 -> 'a1) -> 'a1 -> positive -> 'a1

  val pow : positive -> positive -> positive

  val compare_cont : comparison -> positive -> positive -> comparison

  val compare : positive -> positive -> comparison

  val eqb : positive -> positive -> bool

  val coq_Nsucc_double : n -> n

  val coq_Ndouble : n -> n

  val coq_lor : positive -> positive -> positive

  val coq_land : positive -> positive -> n

  val ldiff : positive -> positive -> n

  val coq_lxor : positive -> positive -> n

  val iter_op : ('a1 -> 'a1 -> 'a1) -> positive -> 'a1 -> 'a1

  val to_nat : positive -> nat

  val of_succ_nat : nat -> positive
 end

module N :
 sig
  val succ_double : n -> n

  val double : n -> n

  val pred : n -> n

  val succ_pos : n -> positive

  val add : n -> n -> n

  val sub : n -> n -> n

  val mul : n -> n -> n

  val compare : n -> n -> comparison

  val eqb : n -> n -> bool

  val leb : n -> n -> bool

  val ltb : n -> n -> bool

  val min : n -> n -> n

  val pow : n -> n -> n

  val pos_div_eucl : positive -> n -> n * n

  val div_eucl : n -> n -> n * n

  val div : n -> n -> n

  val modulo : n -> n -> n

  val coq_lor : n -> n -> n

  val coq_land : n -> n -> n

  val ldiff : n -> n -> n

  val coq_lxor : n -> n -> n

  val to_nat : n -> nat

  val of_nat : nat -> n
 end

module Z :
 sig
  val double : z -> z

  val succ_double : z -> z

  val pred_double : z -> z

  val pos_sub : positive -> positive -> z

  val add : z -> z -> z

  val opp : z -> z

  val sub : z -> z -> z

  val mul : z -> z -> z

  val pow_pos : z -> positive -> z

  val pow : z -> z -> z

  val compare : z -> z -> comparison

  val leb : z -> z -> bool

  val ltb : z -> z -> bool

  val gtb : z -> z -> bool

  val eqb : z -> z -> bool

  val to_nat : z -> nat

  val to_N : z -> n

  val of_nat : nat -> z

  val of_N : n -> z

  val pos_div_eucl : positive -> z -> z * z

  val div_eucl : z -> z -> z * z

  val div : z -> z -> z

  val modulo : z -> z -> z

  val coq_lor : z -> z -> z

  val coq_land : z -> z -> z

  val coq_lxor : z -> z -> z
 end

val nth_error : 'a1 list -> nat -> 'a1 option

val rev : 'a1 list -> 'a1 list

val rev_append : 'a1 list -> 'a1 list -> 'a1 list

val concat : 'a1 list list -> 'a1 list

val map : ('a1 -> 'a2) -> 'a1 list -> 'a2 list

val flat_map : ('a1 -> 'a2 list) -> 'a1 list -> 'a2 list

val fold_left : ('a1 -> 'a2 -> 'a1) -> 'a2 list -> 'a1 -> 'a1

val existsb : ('a1 -> bool) -> 'a1 list -> bool

val forallb : ('a1 -> bool) -> 'a1 list -> bool

val filter : ('a1 -> bool) -> 'a1 list -> 'a1 list

val find : ('a1 -> bool) -> 'a1 list -> 'a1 option

val combine : 'a1 list -> 'a2 list -> ('a1 * 'a2) list

val firstn : nat -> 'a1 list -> 'a1 list

val skipn : nat -> 'a1 list -> 'a1 list

val seq : nat -> nat -> nat list

val repeat : 'a1 -> nat -> 'a1 list

val eqb0 : byte -> byte -> bool

val to_N0 : byte -> n

val of_N0 : n -> byte option

type ascii =
| Ascii of bool * bool * bool * bool * bool * bool * bool * bool

val byte_of_ascii : ascii -> byte

type string =
| EmptyString
| String of ascii * string

val list_ascii_of_string : string -> ascii list

val list_byte_of_string : string -> byte list

type bytes = byte list

val b2n : byte -> n

val b2z : byte -> z

val n2b : n -> byte

val z2b : z -> byte

val bs : string -> bytes

val bytes_eqb : bytes -> bytes -> bool

val is_upper : byte -> bool

val is_lower : byte -> bool

val is_alpha : byte -> bool

val is_digit : byte -> bool

val is_ascii : byte -> bool

val is_vchar : byte -> bool

val is_ows : byte -> bool

val to_lower : byte -> byte

val eq_ic : bytes -> bytes -> bool

val drop_while : ('a1 -> bool) -> 'a1 list -> 'a1 list

val trim_start : (byte -> bool) -> bytes -> bytes

val frev : 'a1 list -> 'a1 list

val trim_end : (byte -> bool) -> bytes -> bytes

val trim_both : (byte -> bool) -> bytes -> bytes

val split_on : byte -> bytes -> bytes list

val find_index : ('a1 -> bool) -> 'a1 list -> nat option

val is_prefix : bytes -> bytes -> bool

val strip_prefix : bytes -> bytes -> bytes option

val sECS_PER_DAY : z

val lEAPOCH : z

val dAYS_PER_400Y : z

val dAYS_PER_100Y : z

val dAYS_PER_4Y : z

val mONTHS : z list

val walk : z list -> z -> z -> z * z

val civil : z -> ((z * z) * z) * z

val wDAY_STRS : bytes

val mON_STRS : bytes

val slice3 : bytes -> z -> bytes

val write_2d : z -> bytes

val write_4d : z -> bytes

val format_http_date : z -> bytes

val i64_MIN : z

val hEADER_TEMPLATE : bytes

type cache = bytes * z

val cache_init : cache

val get_date_now : cache -> z -> cache * bytes

val cache_run : cache -> z list -> bytes list

type seg =
| Lit of bytes
| Param of bytes
| Wild
| DWild

type prec =
| PDW
| PW
| PP
| PL

val prec_rank : prec -> nat

val prec_eqb : prec -> prec -> bool

val prec_gtb : prec -> prec -> bool

type pattern = { segs : seg list; last_prec : prec }

val precedence_of : seg option -> prec

val parse_route_segment : bytes -> seg

val strip_slash : bytes -> bytes

val last_opt : 'a1 list -> 'a1 option

val parse_route : bytes -> bytes * pattern

val seg_eqb : seg -> seg -> bool

val segs_eqb : seg list -> seg list -> bool

val pattern_eqb : pattern -> pattern -> bool

val is_lit : seg -> bool

type bucket = { literals : (bytes * n) list; patterns : (pattern * n) list }

val empty_bucket : bucket

val add_route : bucket -> bytes -> n -> bucket

type meth =
| Std of n
| Custom of bytes

val meth_eqb : meth -> meth -> bool

type table = ((meth * bytes) * n) list

val bucket_of : table -> meth -> bucket

val find_literal : bucket -> bytes -> n option

type params = (bytes * bytes) list

val scan :
  seg list -> bytes list -> nat -> bool -> params -> ((nat * params) * bytes
  list) option

val try_pattern : pattern -> bytes list -> (nat * params) option

type rres =
| Found of n * params
| Fallback

type best = (((nat * prec) * n) * params) option

val better : nat -> prec -> best -> bool

val step_pattern : bytes list -> best -> (pattern * n) -> best

val match_route : table -> meth -> bytes -> rres

val classify : bytes -> seg

val path_segs : bytes -> bytes list

val pattern_of : bytes -> seg list

val matchb : seg list -> bytes list -> bool

val lead_lits : seg list -> nat

val final_rank : seg list -> nat

val rank_ltb : seg list -> seg list -> bool

val all_lit : seg list -> bool

val trailing_dw : seg list -> bool

val equivb : seg list -> seg list -> bool

type route = seg list * n

val register : route list -> seg list -> n -> route list

val routes_of : table -> meth -> route list

val wf_table : table -> bool

val bindings : seg list -> bytes list -> params

val best_of : route option -> route list -> route option

val spec_route : table -> meth -> bytes -> rres

type headers = { stored : (bytes * bytes) list; content_length : n option;
                 chunked : bool; connection_close : bool; print_date : 
                 bool }

val new_headers : headers

val new_nodate : headers

val cONTENT_LENGTH : bytes

val tRANSFER_ENCODING : bytes

val cONNECTION : bytes

val trim_ows : bytes -> bytes

val u64_MAX : n

val parse_digits : n -> bytes -> n option

val parse_content_length : bytes -> n option

val has_token_loop : bytes -> bytes -> bool

val add0 : headers -> bytes -> bytes -> headers

val remove : headers -> bytes -> headers

val replace : headers -> bytes -> bytes -> headers

val set_content_length : headers -> n option -> headers

val set_transfer_encoding_chunked : headers -> headers

val set_connection_close : headers -> headers

val get : headers -> bytes -> bytes option

val get_all : headers -> bytes -> (bytes * bytes) list

val get_count : headers -> nat

val token_values : headers -> bytes -> bytes list

type hop =
| OAdd of bytes * bytes
| OReplace of bytes * bytes
| ORemove of bytes
| OSetCL of n option
| OSetChunked
| OSetClose

val hstep : headers -> hop -> headers

val lower : bytes -> bytes

val same_name : bytes -> bytes -> bool

val strip_ows : bytes -> bytes

val tokens : bytes -> bytes list

val field_has_token : bytes -> bytes -> (bytes * bytes) -> bool

val eval_chunked : (bytes * bytes) list -> bool

val eval_close : (bytes * bytes) list -> bool

val lookup_all : (bytes * bytes) list -> bytes -> (bytes * bytes) list

val lookup_last : (bytes * bytes) list -> bytes -> bytes option

val dec_value : n -> bytes -> n

val cl_value : bytes -> n option

val is_cl : bytes -> bool

val store_step : (bytes * bytes) list -> hop -> (bytes * bytes) list

val spec_cl_rev : hop list -> n option

val spec_cl : hop list -> n option

val b0 : z -> z

val rs : z -> z

val word_of : z list -> z

val uni : nat -> z -> z

val p256 : nat -> z

val offsetnz : nat -> z -> nat

val uri_hit : nat -> z -> z

val path_hit : nat -> z -> z

type perr =
| EVersion
| EStatus
| EHeader
| EEof

type fault =
| FOob
| FStr
| FFuel

type 'a res =
| Ok of 'a
| Err of perr
| Fault of fault

val bind : 'a1 res -> ('a1 -> 'a2 res) -> 'a2 res

val str_unchecked : bytes -> bytes res

val zs : bytes -> z list

val uri_tail : bytes -> nat

val match_uri_vectored : bytes -> nat

val is_q_or_sp : byte -> bool

val path_tail : bytes -> nat

val match_path_vectored : bytes -> nat

type method0 =
| MGet
| MPost
| MHead
| MPut
| MPatch
| MDelete
| MOptions
| MTrace
| MCustom of bytes

val method_str : method0 -> bytes

type uri = { full : bytes; p_start : nat; p_end : nat }

type request = { q_meth : method0; q_target : uri; q_version : n;
                 q_hdrs : headers; q_offset : nat }

val parse_method : bytes -> (method0 * bytes) res

val uRI_VALID : bytes

val is_valid_uri_byte : byte -> bool

type scan2 =
| S2Err
| S2Path of nat
| S2End of nat

val step2 : bool -> bytes -> nat -> scan2

val finish_uri : bytes -> nat -> nat -> nat -> (uri * bytes) res

val is_crlf_byte : byte -> bool

val parse_uri : bytes -> (uri * bytes) res

val parse_version : bytes -> (n * bytes) res

val fIELD_VALID : bytes

val is_valid_header_field_byte : byte -> bool

val parse_header_line : bytes -> (bytes * bytes) res

val parse_headers_f : nat -> headers -> bytes -> (headers * bytes) res

val parse_headers : bytes -> (headers * bytes) res

val offset_of : bytes -> bytes -> nat res

val parse_request : bytes -> request res

type response = { r_version : n; r_code : n; r_reason : bytes;
                  r_hdrs : headers; r_offset : nat }

val digit_at : bytes -> nat -> n res

val is_reason_byte : byte -> bool

val reason_scan : bytes -> nat -> nat res

val parse_response_status : bytes -> ((n * bytes) * bytes) res

val parse_response : bytes -> response res

val slice : bytes -> nat -> nat -> bytes res

val find_sub : bytes -> bytes -> nat option

val sCHEME_SEP : bytes

val uri_scheme : uri -> bytes option res

val uri_path : uri -> bytes res

val uri_query : uri -> bytes option res

val uri_authority : uri -> bytes option res

val uri_path_and_query : uri -> bytes res

val lF : byte

val sP : byte

val cRLF : bytes

val in_set : bytes -> byte -> bool

val is_tchar : byte -> bool

val is_unreserved : byte -> bool

val is_subdelim : byte -> bool

val is_pchar : byte -> bool

val is_path_char : byte -> bool

val is_query_char : byte -> bool

val is_authority_char : byte -> bool

val is_scheme_char : byte -> bool

val is_field_vchar : byte -> bool

type target =
| Origin of bytes * bytes option
| Absolute of bytes * bytes * bytes * bytes option
| AuthorityForm of bytes
| Asterisk

type field = { f_name : bytes; f_ows : bytes; f_value : bytes }

type head = { h_method : bytes; h_target : target; h_minor : bool;
              h_fields : field list }

val render_query : bytes option -> bytes

val render_target : target -> bytes

val render_field : field -> bytes

val render : head -> bytes

val nonempty : bytes -> bool

val opt_all : (byte -> bool) -> bytes option -> bool

val rfc_target : target -> bool

val rfc_field : field -> bool

val rfc_head : head -> bool

val target_path : target -> bytes

val target_query : target -> bytes option

val headers_of : (bytes * bytes) list -> headers

val field_pairs : head -> (bytes * bytes) list

val cl_values : (bytes * bytes) list -> n option list

val cl_consistent : (bytes * bytes) list -> bool

val split_at : byte -> bytes -> (bytes * bytes) option

val take_line : bytes -> (bytes * bytes) option

type sfield = { s_name : bytes; s_raw : bytes }

type shead = { s_method : bytes; s_target : bytes; s_minor : bool;
               s_fields : sfield list }

val strict_fields : nat -> bytes -> (sfield list * bytes) option

val strict_head : bytes -> (shead * nat) option

val field_value : bytes -> bytes

val sfield_pairs : sfield list -> (bytes * bytes) list

val cl_values_rfc : (bytes * bytes) list -> n option list

val cl_consistent_rfc : (bytes * bytes) list -> bool

val in_rng : byte -> n -> n -> bool

val cont : byte -> bool

val utf8_valid : bytes -> bool

val bUF_SIZE : n

val firstnN : n -> bytes -> bytes

val skipnN : n -> bytes -> bytes

val lenN : bytes -> n

type src = { bbuf : bytes; lo : bytes; segs0 : bytes list; sfuel : nat;
             stake : n option }

val mk_src : bytes -> bytes list -> src

val mk_src_take : bytes -> bytes list -> n -> src

val src_rest : src -> bytes

val stream_read : n -> bytes list -> bytes * bytes list

val inner_read : n -> bytes -> bytes list -> (bytes * bytes) * bytes list

val take_read : n -> src -> ((bytes * bytes) * bytes list) * n option

val fill_buf : src -> src

val consume : n -> src -> src

val buf_read : n -> src -> bytes * src

val read_exact_loop : nat -> n -> src -> bytes -> (bytes * src) option

val read_exact : n -> src -> (bytes * src) option

val read_until_lf : nat -> src -> bytes -> bytes * src

type ioerr =
| EUnexpectedEof
| EInvalidData

val read_line : src -> (bytes, ioerr) sum * src

type fixed = { f_src : src; f_remaining : n }

type 's rres0 =
| ROk of bytes * 's
| RErr of ioerr * 's

val fixed_read : n -> fixed -> fixed rres0

val fixed_fill_buf : fixed -> fixed rres0

val fixed_consume : n -> fixed -> fixed

type cstate =
| CSize
| CData
| CCrlf
| CTrailer
| CDone

type chunked0 = { c_src : src; c_state : cstate; c_remaining : n }

val is_hexdigit : byte -> bool

val hexval : byte -> n

val uSIZE_MAX : n

val parse_hex : n -> bytes -> n option

val strip_suffix_byte : byte -> bytes -> bytes option

val read_chunk_size : chunked0 -> chunked0 rres0

val trailer_loop : nat -> src -> ioerr option * src

val advance : nat -> chunked0 -> chunked0 rres0

val adv_fuel : chunked0 -> nat

val chunked_read_loop : nat -> n -> chunked0 -> bytes -> chunked0 rres0

val chunked_read : n -> chunked0 -> chunked0 rres0

val chunked_fill_buf : chunked0 -> chunked0 rres0

val chunked_consume : n -> chunked0 -> chunked0

type body =
| BFixed of fixed
| BChunked of chunked0
| BEof of src
| BEmpty of src

val new_fixed : bytes -> bytes list -> n -> body

val new_chunked : bytes -> bytes list -> body

val new_eof : bytes -> bytes list -> body

val new_empty : bytes -> bytes list -> body

val lift : ('a1 -> body) -> 'a1 rres0 -> body rres0

val body_read : n -> body -> body rres0

val body_fill_buf : body -> body rres0

val body_consume : n -> body -> body

val body_src : body -> src

type outcome =
| AtEof
| Failed of ioerr
| More

val read_all : body -> n list -> bytes -> (bytes * outcome) * body

val bufread_all : body -> n list -> bytes -> (bytes * outcome) * body

val drain_ok : nat -> body -> bool

val drain : nat -> body -> body

type sev =
| SData of bytes
| SIntr

val strip : sev list -> bytes list

val count_intr : sev list -> nat

type 's eres =
| EOk of bytes * 's
| EErr of ioerr * 's
| EIntr of 's

val emap : ('a1 -> 'a2) -> 'a1 eres -> 'a2 eres

type src_e = { bbuf_e : bytes; lo_e : bytes; evs_e : sev list; sfuel_e : 
               nat; stake_e : n option }

val mk_src_e : bytes -> sev list -> src_e

val mk_src_take_e : bytes -> sev list -> n -> src_e

val stream_read_e : n -> sev list -> sev list eres

val inner_read_e : n -> bytes -> sev list -> (bytes * sev list) eres

val take_read_e : n -> src_e -> ((bytes * sev list) * n option) eres

val with_tail : src_e -> bytes -> ((bytes * sev list) * n option) -> src_e

val fill_buf_e : src_e -> src_e eres

val consume_e : n -> src_e -> src_e

val buf_read_e : n -> src_e -> src_e eres

val read_exact_loop_e : nat -> n -> src_e -> bytes -> (bytes * src_e) option

val read_exact_e : n -> src_e -> (bytes * src_e) option

val read_until_lf_e : nat -> src_e -> bytes -> bytes * src_e

val read_line_e : src_e -> (bytes, ioerr) sum * src_e

type fixed_e = { f_src_e : src_e; f_remaining_e : n }

val fixed_read_e : n -> fixed_e -> fixed_e eres

val fixed_fill_buf_e : fixed_e -> fixed_e eres

val fixed_consume_e : n -> fixed_e -> fixed_e

type chunked_e = { c_src_e : src_e; c_state_e : cstate; c_remaining_e : n }

val read_chunk_size_e : chunked_e -> chunked_e rres0

val trailer_loop_e : nat -> src_e -> ioerr option * src_e

val advance_e : nat -> chunked_e -> chunked_e rres0

val adv_fuel_e : chunked_e -> nat

val chunked_read_loop_e : nat -> n -> chunked_e -> bytes -> chunked_e eres

val chunked_read_e : n -> chunked_e -> chunked_e eres

val chunked_fill_buf_e : chunked_e -> chunked_e eres

val chunked_consume_e : n -> chunked_e -> chunked_e

type body_e =
| BFixed_e of fixed_e
| BChunked_e of chunked_e
| BEof_e of src_e
| BEmpty_e of src_e

val new_fixed_e : bytes -> sev list -> n -> body_e

val new_chunked_e : bytes -> sev list -> body_e

val body_read_e : n -> body_e -> body_e eres

val body_fill_buf_e : body_e -> body_e eres

val body_consume_e : n -> body_e -> body_e

val read_all_e : body_e -> n list -> bytes -> (bytes * outcome) * body_e

val bufread_all_e : body_e -> n list -> bytes -> (bytes * outcome) * body_e

type sev2 =
| S2Data of bytes
| S2Intr
| S2Fail

val strip2 : sev2 list -> bytes list

val count_nd : sev2 list -> nat

type 's fres =
| FOk of bytes * 's
| FErr of ioerr * 's
| FIntr of 's
| FFail of 's

val fmap : ('a1 -> 'a2) -> 'a1 fres -> 'a2 fres

type src_f = { bbuf_f : bytes; lo_f : bytes; evs_f : sev2 list;
               sfuel_f : nat; stake_f : n option }

val mk_src_f : bytes -> sev2 list -> src_f

val mk_src_take_f : bytes -> sev2 list -> n -> src_f

val stream_read_f : n -> sev2 list -> sev2 list fres

val inner_read_f : n -> bytes -> sev2 list -> (bytes * sev2 list) fres

val take_read_f : n -> src_f -> ((bytes * sev2 list) * n option) fres

val with_tail_f : src_f -> bytes -> ((bytes * sev2 list) * n option) -> src_f

val fill_buf_f : src_f -> src_f fres

val consume_f : n -> src_f -> src_f

val buf_read_f : n -> src_f -> src_f fres

val read_exact_loop_f : nat -> n -> src_f -> bytes -> src_f fres

val read_exact_f : n -> src_f -> src_f fres

val read_until_lf_f : nat -> src_f -> bytes -> src_f fres

val read_line_f : src_f -> src_f fres

type fixed_f = { f_src_f : src_f; f_remaining_f : n }

val fixed_read_f : n -> fixed_f -> fixed_f fres

val fixed_fill_buf_f : fixed_f -> fixed_f fres

val fixed_consume_f : n -> fixed_f -> fixed_f

type chunked_f = { c_src_f : src_f; c_state_f : cstate; c_remaining_f : n }

val read_chunk_size_f : chunked_f -> chunked_f fres

val trailer_loop_f : nat -> src_f -> src_f fres

val advance_f : nat -> chunked_f -> chunked_f fres

val adv_fuel_f : chunked_f -> nat

val chunked_read_loop_f : nat -> n -> chunked_f -> bytes -> chunked_f fres

val chunked_read_f : n -> chunked_f -> chunked_f fres

val chunked_fill_buf_f : chunked_f -> chunked_f fres

val chunked_consume_f : n -> chunked_f -> chunked_f

type body_f =
| BFixed_f of fixed_f
| BChunked_f of chunked_f
| BEof_f of src_f
| BEmpty_f of src_f

val new_fixed_f : bytes -> sev2 list -> n -> body_f

val new_chunked_f : bytes -> sev2 list -> body_f

val body_read_f : n -> body_f -> body_f fres

val body_fill_buf_f : body_f -> body_f fres

val body_consume_f : n -> body_f -> body_f

val hexdig : byte -> bool

val hexdig_val : byte -> n

val hex_value : bytes -> n

val text_byte : byte -> bool

val wf_ext : bytes -> bool

type why =
| Truncated
| BadSize
| BadChunkEnd

type dres =
| Valid of bytes * bytes
| Invalid of why
| Unspecified

val to_lf : bytes -> (bytes * bytes) option

val line_crlf : bytes -> (bytes option * bytes) option

val take_while : (byte -> bool) -> bytes -> bytes * bytes

val dec_trailers : nat -> bytes -> bytes option option

val take_n : n -> bytes -> (bytes * bytes) option

val dec_chunks : nat -> bytes -> bytes -> dres

val spec_decode : bytes -> dres

val spec_fixed : n -> bytes -> dres

type behaviour =
| BAll
| BReadK of n
| BNone of n
| BFirst
| BHold
| BErr
| BErrAfter
| BClose
| BReader of n

type hook_action =
| HProceed
| HAnswer
| HAnswerClose

type app0 = { behaviour_of : (request -> behaviour);
              hook_of : (request -> hook_action);
              describe : (request -> bytes -> bytes) }

type response_ev = { rs_status : n; rs_body : bytes; rs_close : bool }

type rr =
| RParsed of bytes * request
| RTooLarge
| RInvalid
| REof

val read_request : nat -> nat -> bytes -> bytes list -> rr * bytes list

val te_tokens : headers -> bytes list

val te_final_chunked : headers -> bool

val te_present : headers -> bool

val from_request : bytes -> bytes list -> headers -> body

val read_to_end : nat -> body -> bytes -> (bytes, ioerr) sum * body

val read_k : nat -> n -> body -> bytes -> (bytes, ioerr) sum * body

val body_fuel : body -> nat

val carry_of : src -> bytes

val with_carry : bytes -> bytes list -> bytes list

val after_drop : body -> bytes list

val located : bool -> body -> bool

val reader_payload : n -> bytes

val run_handler :
  app0 -> request -> body -> ((response_ev list * bool) * bytes list) * bool

type one = { o_resps : response_ev list; o_keep : bool; o_ok : bool;
             o_rest : bytes list; o_hooked : bool; o_eof : bool }

val close_resp : n -> response_ev

val handle_one_request : app0 -> nat -> bool -> bytes list -> one

type conn_result = { c_resps : response_ev list; c_ok : bool;
                     c_rest : bytes list; c_requests : nat; c_waiting : 
                     bool }

val handle_connection :
  nat -> app0 -> nat -> bool -> bytes list -> response_ev list -> nat ->
  conn_result

val serve_conn : app0 -> nat -> bytes list -> conn_result

type framing =
| FChunked
| FFixed of n
| FEmpty
| FReject

val values_of : bytes -> (bytes * bytes) list -> bytes list

val te_codings : (bytes * bytes) list -> bytes list

val last_is_chunked : bytes list -> bool

val cl_decision : bytes list -> framing

val rfc_framing : (bytes * bytes) list -> framing

val raw_fields : bytes -> (bytes * bytes) list

type body_view =
| BodyOk of bytes * bytes
| BodyBad
| BodyUnspec

val view_body : framing -> bytes -> body_view

val ev : n -> bytes -> bool -> response_ev

val firstn_bytes : n -> bytes -> bytes

val spec_one :
  app0 -> request -> (bytes * bytes) list -> bytes -> (response_ev
  list * bool) * bytes

type ending =
| EClosed
| EWaiting
| EUnspec

val body_unspecified_for :
  app0 -> request -> (bytes * bytes) list -> bytes -> bool

val spec_conn_f :
  nat -> app0 -> nat -> bytes -> response_ev list -> response_ev list * ending

val spec_conn : app0 -> nat -> bytes -> response_ev list * ending

type reqinfo = { ri_end : nat; ri_chunked : bool; ri_readable : bool;
                 ri_reads_body : bool }

val reads_body : app0 -> request -> bool

val req_infos : nat -> app0 -> nat -> bytes -> nat -> reqinfo list

val boundaries : bytes list -> nat -> nat list

val known_F20c : app0 -> nat -> bytes list -> bool

val known_F21 : app0 -> nat -> bytes list -> bool

val cRLF0 : bytes

val digit : n -> byte

val u16_to_ascii : n -> bytes

val dec_digits : nat -> n -> bytes -> bytes

val u64_to_ascii : n -> bytes

val hexdigit_upper : n -> byte

val hex_digits : nat -> n -> bytes -> bytes

val hex_upper : n -> bytes

val status_line : n -> bytes -> bytes

val header_lines : headers -> bytes

val head_fields : headers -> bytes -> bytes

val content_length_header : n -> bytes

val chunk : bytes -> bytes

val lAST_CHUNK : bytes

val iNLINE_COPY_MAX : nat

val write_vectored_bytes : bytes -> bytes -> nat -> bytes

type reader = bytes list

val rd : nat -> reader -> bytes * reader

val take_all : nat -> nat -> reader -> bytes -> bytes * reader

val pROBE_MAX : nat

val probe_body : nat -> reader -> bytes -> (bytes * bool) * reader

val cHUNK_BUF : nat

val write_chunked : nat -> reader -> bytes

val reader_fuel : reader -> nat

type wres =
| WOk of bytes
| WErr of bytes

val write_response_empty : n -> bytes -> headers -> bytes -> wres

val write_response_bytes :
  n -> bytes -> headers -> bytes -> bytes -> nat -> wres

val with_body : bytes -> headers -> bytes -> reader -> nat -> wres

val write_response : n -> bytes -> headers -> bytes -> reader -> nat -> wres

val write_request :
  bytes -> bytes -> headers -> bytes -> reader -> nat -> wres

type message = { m_start : bytes; m_fields : (bytes * bytes) list;
                 m_body : bytes; m_rest : bytes }

val dec_fields : nat -> bytes -> ((bytes * bytes) list * bytes) option

val is_name : bytes -> (bytes * bytes) -> bool

val decode_msg : bytes -> message option

val is_te : (bytes * bytes) -> bool

val norm_field : (bytes * bytes) -> bytes * bytes

val te_fields_st : (bytes * bytes) list -> (bytes * bytes) list

val printable_st : (bytes * bytes) list -> bool

type wstate =
| WIdle
| WLocked
| WGot of nat
| WRunning of nat
| WDisc
| WExited

type mstate =
| MSubmitting
| MJoining of nat
| MReturned

type label =
| LSend
| LDropSender
| LJoined
| LReturned
| LLock of nat
| LUnlock of nat
| LExit of nat
| LJobStart of nat * nat
| LJobEnd of nat

type pstate = { p_workers : wstate list; p_queue : nat list; p_sent : 
                nat; p_sender : bool; p_lock : nat option; p_main : mstate;
                p_starts : nat list; p_done : nat list }

val pool_init : nat -> pstate

val set_nth : 'a1 list -> nat -> 'a1 -> 'a1 list

val upd : pstate -> nat -> wstate -> pstate

val step : pstate -> label -> pstate option

val run : pstate -> label list -> pstate option

val first_rejected : pstate -> label list -> nat -> nat option

type alloc =
| ALive
| AFreed

type jphase =
| JQueued
| JRunning
| JDeleted
| JDropped
| JStored

type conn = { k_rec : alloc; k_stream : bool; k_registered : bool;
              k_in_flight : bool; k_closed : bool; k_pending : nat;
              k_peer_closed : bool; k_jobs : jphase list; k_in_batch : 
              bool; k_grave : bool; k_answered : nat; k_taken : nat list }

type elstate =
| EWaiting0
| EBatch

type estate = { e_conns : conn list; e_loop : elstate }

val ep_init : estate

type outcome0 =
| OStale
| ODispatched
| OBusy

type elabel =
| LAccept of bool
| LClientSend of nat
| LClientClose of nat
| LWait of nat list
| LEvent of nat * outcome0
| LFree of nat
| LBatchEnd
| LJobStart0 of nat
| LRearm of nat
| LDel of nat
| LStreamDrop of nat
| LClosedStore of nat
| LGrave of nat

val ready : conn -> bool

val set_nth0 : 'a1 list -> nat -> 'a1 -> 'a1 list

val with_conn : estate -> nat -> (conn -> conn option) -> estate option

val upd_jobs : conn -> jphase list -> conn

val move_job : jphase list -> jphase -> jphase option -> jphase list option

val new_conn : bool -> conn

val all_distinct : nat list -> bool

val step0 : estate -> elabel -> estate option

val conn_of : estate -> nat -> conn option

val rec_live : estate -> nat -> bool

val stream_open : estate -> nat -> bool

val safe : estate -> elabel -> bool

type verdict =
| VAccepted of estate
| VRejected of nat
| VUnsafe of nat

val replay : estate -> elabel list -> nat -> verdict

val all_ended : estate -> bool

val live_records : estate -> nat

val open_streams : estate -> nat

val bUFWRITER : nat

val k_BODY : nat
