(* Independent specification for C19 (and the token semantics used by C05/C09): a header collection
   is the list of stored (name, value) fields; every derived answer is a *fresh evaluation* of that
   list, reading values as comma-separated lists of case-insensitive tokens with optional
   whitespace (SP / HTAB) around them.  The declared content length is the outcome of the most
   recent length-affecting operation. *)
From KV Require Import Lib.Bytes Model.Headers.

(* case-insensitive equality of ASCII strings, stated through lower-casing *)
Definition lower (s : bytes) : bytes := map to_lower s.
Definition same_name (a b : bytes) : bool := bytes_eqb (lower a) (lower b).

Definition strip_ows (v : bytes) : bytes := rev (drop_while is_ows (rev (drop_while is_ows v))).
(* the members of a comma-separated list value *)
Definition tokens (v : bytes) : list bytes := map strip_ows (split_on x2c v).

Definition field_has_token (name tok : bytes) (f : bytes * bytes) : bool :=
  same_name (fst f) name && existsb (fun t => same_name t tok) (tokens (snd f)).

(* fresh evaluation over the stored fields *)
Definition eval_chunked (fs : list (bytes * bytes)) : bool :=
  existsb (field_has_token (bs "transfer-encoding") (bs "chunked")) fs.
Definition eval_close (fs : list (bytes * bytes)) : bool :=
  existsb (field_has_token (bs "connection") (bs "close")) fs.
Definition lookup_all (fs : list (bytes * bytes)) (name : bytes) : list (bytes * bytes) :=
  filter (fun f => same_name (fst f) name) fs.
Definition lookup_last (fs : list (bytes * bytes)) (name : bytes) : option bytes :=
  match rev (lookup_all fs name) with f :: _ => Some (snd f) | [] => None end.

(* a Content-Length value: optional whitespace around 1*DIGIT, value below 2^64 *)
Fixpoint dec_value (acc : N) (l : bytes) : N :=
  match l with [] => acc | b :: r => dec_value (acc * 10 + (b2n b - 48))%N r end.
Definition cl_value (v : bytes) : option N :=
  let d := strip_ows v in
  match d with
  | [] => None
  | _ => if forallb is_digit d && (dec_value 0 d <? 2 ^ 64)%N then Some (dec_value 0 d) else None
  end.

Definition is_cl (n : bytes) : bool := same_name n (bs "content-length").

(* what is stored after a history of operations *)
Definition store_step (fs : list (bytes * bytes)) (o : hop) : list (bytes * bytes) :=
  let without n := filter (fun f => negb (same_name (fst f) n)) fs in
  match o with
  | OAdd n v => if is_cl n then fs else fs ++ [(n, v)]
  | OReplace n v => if is_cl n then without n else without n ++ [(n, v)]
  | ORemove n => without n
  | OSetCL _ => fs
  | OSetChunked => if eval_chunked fs then fs else fs ++ [(bs "transfer-encoding", bs "chunked")]
  | OSetClose => fs ++ [(bs "connection", bs "close")]
  end.
Definition spec_stored (ops : list hop) : list (bytes * bytes) := fold_left store_step ops [].

(* the declared content length: decided by the most recent length-affecting operation *)
Fixpoint spec_cl_rev (rops : list hop) : option N :=
  match rops with
  | [] => None
  | OAdd n v :: r => if is_cl n then cl_value v else spec_cl_rev r
  | OReplace n v :: r => if is_cl n then cl_value v else spec_cl_rev r
  | ORemove n :: r => if is_cl n then None else spec_cl_rev r
  | OSetCL l :: _ => l
  | _ :: r => spec_cl_rev r
  end.
Definition spec_cl (ops : list hop) : option N := spec_cl_rev (rev ops).
