(* Content-Length consistency of a head, stated with the independent value grammar of
   Spec/HeaderStore.v (OWS 1*DIGIT OWS, below 2^64) instead of the model's parser: RFC 9112 6.3 -
   every Content-Length field is valid and all carry the same number. *)
From KV Require Import Lib.Bytes Spec.HeaderStore.

Definition cl_values_rfc (fs : list (bytes * bytes)) : list (option N) :=
  map (fun nv => cl_value (snd nv)) (filter (fun nv => same_name (fst nv) (bs "content-length")) fs).
Definition cl_consistent_rfc (fs : list (bytes * bytes)) : bool :=
  match cl_values_rfc fs with
  | [] => true
  | None :: _ => false
  | Some n :: r => forallb (fun o => match o with Some m => N.eqb m n | None => false end) r
  end.
