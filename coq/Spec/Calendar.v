(* Independent specification for C18: the proleptic Gregorian calendar as a successor function on
   (year, month, day-of-month, weekday), started at Thursday 1970-01-01, and the IMF-fixdate line
   of RFC 9110 section 5.6.7.  Nothing here mentions the code's day-number arithmetic. *)
From KV Require Import Lib.Bytes.
Local Open Scope Z_scope.

Definition leap (y : Z) : bool :=
  ((y mod 4 =? 0) && negb (y mod 100 =? 0)) || (y mod 400 =? 0).

Definition month_len (y m : Z) : Z :=
  match m with
  | 1 | 3 | 5 | 7 | 8 | 10 | 12 => 31
  | 4 | 6 | 9 | 11 => 30
  | 2 => if leap y then 29 else 28
  | _ => 0
  end.

(* a civil date with weekday: Monday = 1 .. Sunday = 7 *)
Definition cdate := (Z * Z * Z * Z)%type.

Definition next (st : cdate) : cdate :=
  let '(y, m, d, w) := st in
  let w' := if w =? 7 then 1 else w + 1 in
  if d <? month_len y m then (y, m, d + 1, w')
  else if m <? 12 then (y, m + 1, 1, w') else (y + 1, 1, 1, w').

Definition epoch_date : cdate := (1970, 1, 1, 4).   (* a Thursday *)

(* the civil date n days after 1970-01-01 *)
Definition date_of_day (n : nat) : cdate := Nat.iter n next epoch_date.

Definition day_name (w : Z) : bytes :=
  match w with
  | 1 => bs "Mon" | 2 => bs "Tue" | 3 => bs "Wed" | 4 => bs "Thu"
  | 5 => bs "Fri" | 6 => bs "Sat" | 7 => bs "Sun" | _ => []
  end.

Definition month_name (m : Z) : bytes :=
  match m with
  | 1 => bs "Jan" | 2 => bs "Feb" | 3 => bs "Mar" | 4 => bs "Apr" | 5 => bs "May" | 6 => bs "Jun"
  | 7 => bs "Jul" | 8 => bs "Aug" | 9 => bs "Sep" | 10 => bs "Oct" | 11 => bs "Nov" | 12 => bs "Dec"
  | _ => []
  end.

(* decimal numeral of [v], zero-padded to exactly [w] digits (least significant [w] digits) *)
Fixpoint dec_rev (w : nat) (v : Z) : bytes :=
  match w with
  | O => []
  | S k => z2b (48 + v mod 10) :: dec_rev k (v / 10)
  end.
Definition dec (w : nat) (v : Z) : bytes := rev (dec_rev w v).

(* "date: Thu, 01 Jan 1970 00:00:00 GMT\r\n" for civil date [c] and second-of-day [s] *)
Definition imf_fixdate_line (c : cdate) (s : Z) : bytes :=
  let '(y, m, d, w) := c in
  bs "date: " ++ day_name w ++ bs ", " ++ dec 2 d ++ bs " " ++ month_name m ++ bs " " ++ dec 4 y ++
  bs " " ++ dec 2 (s / 3600) ++ bs ":" ++ dec 2 ((s / 60) mod 60) ++ bs ":" ++ dec 2 (s mod 60) ++
  bs " GMT" ++ [x0d; x0a].

Definition MAX_SECS := 253402300799.        (* 9999-12-31 23:59:59 *)
Definition N_DAYS := 2932897.               (* days from 1970-01-01 through 9999-12-31 *)
