(* Narrow, decidable descriptions of the two recorded findings about C07 (known_findings.json):
   F20c  (REPAIRED: the body reader hands back, when it is dropped, the bytes it holds beyond the end of the body, and the
         next read_request starts with them; nothing pinned depends on [known_F20c] any more - C07_transcript_any holds
         for every segmentation)
         a segment delivers the end of a CHUNKED request body together with bytes of the next request
         (only possible when the next request is sent while an already-answered request's body is
         still being discarded): the chunked reader's read-ahead swallowed those bytes;
   F21   (REPAIRED, dc753b5: the connection is closed after the response; nothing pinned depends on [known_F21] any more)
         a request whose body is malformed or cut short is answered although the error never reaches the
         server (the handler or hook ignores the body, reads only part of it, or swallows the read error):
         the failed discard of the rest goes unnoticed and the connection is kept.
   Both are computed from the sequential interpretation of the stream (Spec/ConnSpec.v). *)
From KV Require Import Lib.Bytes Model.Headers Model.Parser Model.Server
  Spec.HeaderStore Spec.HttpGrammar Spec.ChunkedSpec Spec.Framing Spec.ConnSpec.

(* one record per request of the sequential interpretation: where it ends (offset in the stream),
   whether it is chunked-framed, whether its body is readable, whether the application reads it *)
Record reqinfo := { ri_end : nat; ri_chunked : bool; ri_readable : bool; ri_reads_body : bool }.

Definition reads_body (a : app) (r : request) : bool :=
  match hook_of a r with
  | HProceed => match behaviour_of a r with BAll => true | _ => false end   (* reads everything and propagates errors *)
  | _ => false
  end.

Fixpoint req_infos (fuel : nat) (a : app) (max_head : nat) (s : bytes) (pos : nat) : list reqinfo :=
  match fuel with
  | O => []
  | S fuel' =>
      match s with
      | [] => []
      | _ =>
          match parse_request (firstn max_head s) with
          | Ok r =>
              let raw := raw_fields (firstn max_head s) in
              let f := rfc_framing raw in
              let after := skipn (q_offset r) s in
              match f with
              | FReject => []
              | _ =>
                  match view_body f after with
                  | BodyOk _ rest =>
                      let e := pos + (length s - length rest) in
                      {| ri_end := e; ri_chunked := match f with FChunked => true | _ => false end;
                         ri_readable := true; ri_reads_body := reads_body a r |}
                      :: req_infos fuel' a max_head rest e
                  | BodyUnspec => []
                  | BodyBad =>
                      [{| ri_end := pos + length s; ri_chunked := match f with FChunked => true | _ => false end;
                          ri_readable := false; ri_reads_body := reads_body a r |}]
                  end
              end
          | _ => []
          end
      end
  end.

Fixpoint boundaries (segs : list bytes) (pos : nat) : list nat :=
  match segs with [] => [] | g :: r => (pos + length g) :: boundaries r (pos + length g) end.

Definition known_F20c (a : app) (max_head : nat) (segs : list bytes) : bool :=
  let total := concat segs in
  let infos := req_infos (S (length total)) a max_head total 0 in
  let bs := boundaries segs 0 in
  existsb (fun ri => ri_chunked ri && ri_readable ri && Nat.ltb (ri_end ri) (length total) &&
                     negb (existsb (Nat.eqb (ri_end ri)) bs)) infos.

Definition known_F21 (a : app) (max_head : nat) (segs : list bytes) : bool :=
  let total := concat segs in
  existsb (fun ri => negb (ri_readable ri) && negb (ri_reads_body ri))
          (req_infos (S (length total)) a max_head total 0).

(* lock-step delivery: no segment carries bytes of two different requests, i.e. every place where
   one request ends and more bytes follow is a segment boundary *)
Definition lockstep (a : app) (max_head : nat) (segs : list bytes) : bool :=
  let total := concat segs in
  let bs := boundaries segs 0 in
  forallb (fun ri => Nat.leb (length total) (ri_end ri) || existsb (Nat.eqb (ri_end ri)) bs)
          (req_infos (S (length total)) a max_head total 0).
