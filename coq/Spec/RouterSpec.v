(* Independent specification for C11/C12: what "the most specific matching route" means.
   Shares only the *syntax* of patterns (type [seg]) and the request-method type with the model. *)
From KV Require Import Lib.Bytes Model.Router.

(* ---- syntax of a registered path ---- *)
Definition classify (s : bytes) : seg :=
  match s with
  | [x2a] => Wild
  | [x2a; x2a] => DWild
  | x3a :: name => Param name
  | _ => Lit s
  end.

(* segments of a path: an optional single leading '/' is dropped, then split at every '/' *)
Definition path_segs (p : bytes) : list bytes :=
  split_on x2f (match p with x2f :: r => r | _ => p end).

Definition pattern_of (path : bytes) : list seg := map classify (path_segs path).

(* ---- matching, segment by segment ---- *)
Inductive matches : list seg -> list bytes -> Prop :=
| m_nil : matches [] []
| m_lit s p u : matches p u -> matches (Lit s :: p) (s :: u)
| m_param n p x u : matches p u -> matches (Param n :: p) (x :: u)
| m_wild p x u : matches p u -> matches (Wild :: p) (x :: u)
| m_dw u : matches [DWild] u.              (* trailing "**": any remaining segments, also none *)

Fixpoint matchb (p : list seg) (us : list bytes) : bool :=
  match p with
  | [] => match us with [] => true | _ => false end
  | DWild :: p' => match p' with [] => true | _ => false end
  | Lit s :: p' => match us with u :: us' => bytes_eqb s u && matchb p' us' | [] => false end
  | Param _ :: p' => match us with _ :: us' => matchb p' us' | [] => false end
  | Wild :: p' => match us with _ :: us' => matchb p' us' | [] => false end
  end.

(* ---- specificity ---- *)
Fixpoint lead_lits (p : list seg) : nat :=
  match p with Lit _ :: p' => S (lead_lits p') | _ => 0 end.

(* literal > :param > * > ** on the final segment *)
Definition final_rank (p : list seg) : nat :=
  match last_opt p with
  | Some (Lit _) => 3 | Some (Param _) => 2 | Some Wild => 1 | _ => 0
  end.

(* lexicographic (lead_lits, final_rank) *)
Definition rank_ltb (p q : list seg) : bool :=
  Nat.ltb (lead_lits p) (lead_lits q) ||
  (Nat.eqb (lead_lits p) (lead_lits q) && Nat.ltb (final_rank p) (final_rank q)).

Definition all_lit (p : list seg) : bool := forallb is_lit p.

(* "**" occurs only as the final segment: the class of patterns the property speaks about *)
Fixpoint trailing_dw (p : list seg) : bool :=
  match p with
  | [] => true
  | DWild :: p' => match p' with [] => true | _ => false end
  | _ :: p' => trailing_dw p'
  end.

(* ---- registration ---- *)
(* equivalent patterns: same shape, parameter names ignored *)
Fixpoint equivb (p q : list seg) : bool :=
  match p, q with
  | [], [] => true
  | Lit a :: p', Lit b :: q' => bytes_eqb a b && equivb p' q'
  | Param _ :: p', Param _ :: q' => equivb p' q'
  | Wild :: p', Wild :: q' => equivb p' q'
  | DWild :: p', DWild :: q' => equivb p' q'
  | _, _ => false
  end.

Definition route := (list seg * N)%type.

(* registering replaces an equivalent earlier registration; the new one is the most recent *)
Definition register (rs : list route) (p : list seg) (h : N) : list route :=
  filter (fun e => negb (equivb (fst e) p)) rs ++ [(p, h)].

(* the routes in force under method [m], oldest first *)
Definition routes_of (t : table) (m : meth) : list route :=
  fold_left (fun rs r => let '(m', path, h) := r in
                         if meth_eqb m' m then register rs (pattern_of path) h else rs) t [].

Definition wf_table (t : table) : bool :=
  forallb (fun r => let '(_, path, _) := r in trailing_dw (pattern_of path)) t.

(* ---- parameters ---- *)
Fixpoint bindings (p : list seg) (us : list bytes) : params :=
  match p, us with
  | Param n :: p', u :: us' => (n, u) :: bindings p' us'
  | DWild :: _, _ => []
  | _ :: p', _ :: us' => bindings p' us'
  | _, _ => []
  end.

Fixpoint param_names (p : list seg) : list bytes :=
  match p with
  | [] => []
  | Param n :: p' => n :: param_names p'
  | _ :: p' => param_names p'
  end.

(* what it means for entry [i] = (pat, h) of the routes in force to be THE selected one *)
Definition selected (rs : list route) (us : list bytes) (i : nat) (pat : list seg) (h : N) : Prop :=
  nth_error rs i = Some (pat, h) /\ matches pat us /\
  (all_lit pat = true \/
   ((forall pat' h', In (pat', h') rs -> all_lit pat' = true -> ~ matches pat' us) /\
    (forall j pat' h', nth_error rs j = Some (pat', h') -> matches pat' us ->
       rank_ltb pat pat' = false /\ (rank_ltb pat' pat = true \/ i <= j)))).

(* ---- selection ---- *)
(* first element of maximal rank *)
Fixpoint best_of (cur : option route) (l : list route) : option route :=
  match l with
  | [] => cur
  | e :: r =>
      match cur with
      | None => best_of (Some e) r
      | Some c => if rank_ltb (fst c) (fst e) then best_of (Some e) r else best_of cur r
      end
  end.

Definition spec_route (t : table) (m : meth) (uri : bytes) : rres :=
  let us := path_segs uri in
  let rs := routes_of t m in
  match find (fun e => all_lit (fst e) && matchb (fst e) us) rs with
  | Some e => Found (snd e) []
  | None =>
      match best_of None (filter (fun e => matchb (fst e) us) rs) with
      | Some e => Found (snd e) (bindings (fst e) us)
      | None => Fallback
      end
  end.
