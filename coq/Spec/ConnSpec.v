(* Specification of one server connection for C05 / C07 / C09 / C10: the inbound byte stream is
   interpreted SEQUENTIALLY, request after request, from the concatenated bytes alone - no
   segmentation, no buffers: head (within the first N bytes), framing by RFC 9112 6.3
   (Spec/Framing.v), body by the strict recognisers (Spec/ChunkedSpec.v), one response per request
   computed from exactly that head and body, and the persistence rule of C09.
   The head is recognised with [parse_request], which C02/C04 characterise exactly. *)
From KV Require Import Lib.Bytes Model.Headers Model.Parser Model.Server
  Spec.HeaderStore Spec.HttpGrammar Spec.ChunkedSpec Spec.Framing.

(* the raw fields of an accepted head, from the strict tokenizer *)
Definition raw_fields (s : bytes) : list (bytes * bytes) :=
  match strict_head s with
  | Some (sh, _) => sfield_pairs (s_fields sh)
  | None => []
  end.

(* what the handler can obtain from the body *)
Inductive body_view :=
| BodyOk (payload rest : bytes)       (* well-framed: payload, and the bytes that follow the body *)
| BodyBad                             (* cut short or malformed: its end cannot be established *)
| BodyUnspec.                         (* outside the grammar the properties speak about: nothing is demanded *)

Definition view_body (f : framing) (after_head : bytes) : body_view :=
  match f with
  | FEmpty => BodyOk [] after_head
  | FFixed n => match spec_fixed n after_head with Valid p r => BodyOk p r | Unspecified => BodyUnspec | _ => BodyBad end
  | FChunked => match spec_decode after_head with Valid p r => BodyOk p r | Unspecified => BodyUnspec | _ => BodyBad end
  | FReject => BodyBad
  end.

Definition ev (st : N) (b : bytes) (c : bool) : response_ev := {| rs_status := st; rs_body := b; rs_close := c |}.

Definition firstn_bytes (k : N) (l : bytes) : bytes := firstn (N.to_nat (N.min k (N.of_nat (length l)))) l.

(* one request: responses, whether the connection persists, and the rest of the stream.
   [None] for the rest = the connection must not continue (closed). *)
Definition spec_one (a : app) (r : request) (raw : list (bytes * bytes)) (after_head : bytes)
  : list response_ev * bool * bytes :=
  match rfc_framing raw with
  | FReject => ([ev 400 [] true], false, [])
  | f =>
      let req_close := eval_close raw in
      let v := view_body f after_head in
      let rest := match v with BodyOk _ r' => r' | _ => [] end in
      let readable := match v with BodyOk _ _ => true | _ => false end in
      let payload := match v with BodyOk p _ => p | _ => [] end in
      match hook_of a r with
      | HAnswer => ([ev 200 (bs "hook") false], negb req_close && readable, rest)
      | HAnswerClose => ([ev 200 (bs "hook") true], false, rest)
      | HProceed =>
          match behaviour_of a r with
          | BAll => if readable then ([ev 200 (describe a r payload) false], negb req_close, rest)
                    else ([], false, [])                                   (* handler error: no response, close *)
          | BReadK k => ([ev 200 (describe a r (firstn_bytes k payload)) false], negb req_close && readable, rest)
          | BNone st => ([ev st (describe a r []) false], negb req_close && readable, rest)
          | BFirst => ([ev 200 (describe a r []) false], negb req_close && readable, rest)
          | BHold => ([ev 200 (describe a r []) false], negb req_close && readable, rest)
          | BErr => ([], false, [])
          | BErrAfter => ([ev 200 (describe a r []) false], false, [])
          | BClose => ([ev 200 (describe a r []) true], false, rest)
          | BReader n => ([ev 200 (reader_payload n) false], negb req_close && readable, rest)
          end
      end
  end.

Inductive ending := EClosed | EWaiting | EUnspec.   (* closed by the server | waiting for more input | no demand from here on *)

(* nothing is demanded of a request whose body lies outside the grammar; nor - beyond what has been answered so far - of a
   request whose handler reads PART of a body that is cut short or malformed ([BReadK] on [BodyBad]): whether it gets its
   bytes and answers, or meets the defect and fails, depends on where the defect lies *)
Definition body_unspecified_for (a : app) (r : request) (raw : list (bytes * bytes)) (after_head : bytes) : bool :=
  match rfc_framing raw with
  | FReject => false
  | f => match view_body f after_head with
         | BodyUnspec => true
         | BodyBad => match hook_of a r, behaviour_of a r with HProceed, BReadK _ => true | _, _ => false end
         | BodyOk _ _ => false
         end
  end.
Definition body_unspecified (r : request) (raw : list (bytes * bytes)) (after_head : bytes) : bool :=
  match rfc_framing raw with
  | FReject => false
  | f => match view_body f after_head with BodyUnspec => true | _ => false end
  end.

Fixpoint spec_conn_f (fuel : nat) (a : app) (max_head : nat) (s : bytes) (acc : list response_ev)
  : list response_ev * ending :=
  match fuel with
  | O => (acc, EClosed)
  | S fuel' =>
      match s with
      | [] => (acc, EWaiting)
      | _ =>
          match parse_request (firstn max_head s) with
          | Ok r =>
              if body_unspecified_for a r (raw_fields (firstn max_head s)) (skipn (q_offset r) s) then (acc, EUnspec) else
              let '(resps, keep, rest) := spec_one a r (raw_fields (firstn max_head s)) (skipn (q_offset r) s) in
              if keep then spec_conn_f fuel' a max_head rest (acc ++ resps) else (acc ++ resps, EClosed)
          | Err EEof =>
              if Nat.leb max_head (length s) then (acc ++ [ev 431 [] true], EClosed)   (* no complete head within N bytes *)
              else (acc, EWaiting)
          | _ => (acc ++ [ev 400 [] true], EClosed)
          end
      end
  end.

Definition spec_conn (a : app) (max_head : nat) (s : bytes) : list response_ev * ending :=
  spec_conn_f (S (length s)) a max_head s [].
