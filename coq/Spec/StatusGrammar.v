(* Specification of RESPONSE heads, the counterpart of Spec/HttpGrammar.v for status lines:
      "HTTP/1." ("0"|"1") SP 3DIGIT SP reason CRLF *( name ":" value CRLF ) CRLF
      reason = *( HTAB / SP / %x21-7E )                       (possibly empty)
   Two independent descriptions, as for requests:
   - a RECOGNISER: [strict_status_head], a deliberately simple tokenizer of exactly that shape, built from
     the line / field-line recogniser of HttpGrammar ([take_line], [strict_fields]);
   - a GENERATOR: structured status heads [status_head], the well-formedness predicate
     [rfc_status_head], their wire form [render_status] (field lines rendered by HttpGrammar.render_field).
   Neither mentions the code's index arithmetic, its scanners or Model/Parser.v. *)
From KV Require Import Lib.Bytes Model.Headers Spec.HttpGrammar.

(* ------------------------------------------------------------------ character classes, digits *)
(* a byte of the reason phrase: HTAB / SP / VCHAR (no obs-text, no CR, LF or other controls) *)
Definition is_reason_char (b : byte) : bool := is_ows b || is_vchar b.

(* the value of a decimal digit, as a table *)
Definition digit_val (b : byte) : option N :=
  match b with
  | x30 => Some 0%N | x31 => Some 1%N | x32 => Some 2%N | x33 => Some 3%N | x34 => Some 4%N
  | x35 => Some 5%N | x36 => Some 6%N | x37 => Some 7%N | x38 => Some 8%N | x39 => Some 9%N
  | _ => None
  end.

(* a status code as three decimal digits, most significant first (leading zeros kept) *)
Definition code_digits (n : N) : bytes :=
  [digit_byte (n / 100); digit_byte ((n / 10) mod 10); digit_byte (n mod 10)].

(* ------------------------------------------------------------------ generator *)
Record status_head := {
  t_minor : bool;                         (* HTTP/1.1 or HTTP/1.0 *)
  t_hundreds : N; t_tens : N; t_ones : N; (* the three digits of the status code *)
  t_reason : bytes;
  t_fields : list field                   (* name ":" OWS value CRLF, as in a request head *)
}.

Definition status_code (h : status_head) : N := (t_hundreds h * 100 + t_tens h * 10 + t_ones h)%N.

Definition render_status (h : status_head) : bytes :=
  bs "HTTP/1." ++ [if t_minor h then x31 else x30] ++ [SP] ++
  [digit_byte (t_hundreds h); digit_byte (t_tens h); digit_byte (t_ones h)] ++ [SP] ++
  t_reason h ++ CRLF ++ flat_map render_field (t_fields h) ++ CRLF.

Definition rfc_status_head (h : status_head) : bool :=
  (t_hundreds h <? 10)%N && (t_tens h <? 10)%N && (t_ones h <? 10)%N &&
  forallb is_reason_char (t_reason h) && forallb rfc_field (t_fields h).

(* the field list a parser must report for a generated head *)
Definition status_field_pairs (h : status_head) : list (bytes * bytes) :=
  map (fun f => (f_name f, f_value f)) (t_fields h).

(* ------------------------------------------------------------------ recogniser *)
Record strict_status := { ss_minor : bool; ss_code : N; ss_reason : bytes; ss_fields : list sfield }.

(* the strict shape; result: the tokens and the number of bytes consumed *)
Definition strict_status_head (s : bytes) : option (strict_status * nat) :=
  match strip_prefix (bs "HTTP/1.") s with
  | None => None
  | Some r1 =>
      match r1 with
      | v :: sp1 :: a :: b :: c :: sp2 :: r2 =>
          if (Byte.eqb v x31 || Byte.eqb v x30) && Byte.eqb sp1 SP && Byte.eqb sp2 SP then
            match digit_val a, digit_val b, digit_val c with
            | Some x, Some y, Some z =>
                match take_line r2 with                              (* reason CRLF *)
                | None => None
                | Some (reason, r3) =>
                    if forallb is_reason_char reason then
                      match strict_fields (S (length r3)) r3 with
                      | Some (fs, rest) =>
                          Some ({| ss_minor := Byte.eqb v x31; ss_code := (x * 100 + y * 10 + z)%N;
                                   ss_reason := reason; ss_fields := fs |},
                                length s - length rest)
                      | None => None
                      end
                    else None
                end
            | _, _, _ => None
            end
          else None
      | _ => None
      end
  end.
