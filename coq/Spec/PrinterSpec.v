(* What C08 demands of a printed message, in terms of the inputs handed to the printer. *)
From KV Require Import Lib.Bytes Model.Headers Model.Printer Spec.HeaderStore Spec.ChunkedSpec Spec.MessageSpec.

(* the header collection a caller builds: Headers::new() / new_nodate() then add(name, value)... *)
Definition user_headers (dated : bool) (fs : list (bytes * bytes)) : headers :=
  fold_left (fun h nv => add h (fst nv) (snd nv)) fs (if dated then new_headers else new_nodate).

Definition is_te (f : bytes * bytes) : bool := same_name (fst f) (bs "transfer-encoding").
Definition is_clf (f : bytes * bytes) : bool := same_name (fst f) (bs "content-length").

(* printable user fields; a Transfer-Encoding declaration, if any, is the single field "chunked";
   a Content-Length declaration, if any, is a single valid number *)
Definition wf_user_fields (fs : list (bytes * bytes)) : bool :=
  forallb wf_field fs &&
  match filter is_te fs with
  | [] => true
  | [te] => same_name (snd te) (bs "chunked")
  | _ => false
  end &&
  match filter is_clf fs with
  | [] => true
  | [cl] => match cl_value (snd cl) with Some _ => true | None => false end
  | _ => false
  end.

Definition declared_chunked (fs : list (bytes * bytes)) : bool :=
  match filter is_te fs with [_] => true | _ => false end.
Definition declared_length (fs : list (bytes * bytes)) : option N :=
  match filter is_clf fs with [cl] => cl_value (snd cl) | _ => None end.

(* the fields a peer must see besides the framing field: the user's (a content length is lifted out
   of the list by Headers::add), then the date *)
Definition shown_fields (dated : bool) (fs : list (bytes * bytes)) (date_value : bytes) : list (bytes * bytes) :=
  filter (fun f => negb (is_clf f)) fs ++ (if dated then [(bs "date", date_value)] else []).

Definition date_line (date_value : bytes) : bytes := bs "date: " ++ date_value ++ [x0d; x0a].
Definition wf_date_value (v : bytes) : bool := wf_field (bs "date", v).

(* decimal numeral of n *)
Definition dec_of (n : N) : bytes := u64_to_ascii n.

Definition response_start (code : N) (reason : bytes) : bytes :=
  bs "HTTP/1.1 " ++ [n2b (48 + code / 100); n2b (48 + (code / 10) mod 10); n2b (48 + code mod 10); x20] ++ reason.
Definition request_start (method uri : bytes) : bytes := method ++ [x20] ++ uri ++ bs " HTTP/1.1".

Definition out_of (w : wres) : bytes := match w with WOk o => o | WErr o => o end.
Definition is_ok (w : wres) : bool := match w with WOk _ => true | WErr _ => false end.

(* "exactly one framing header: Content-Length equal to the body length, or chunked" *)
Definition framing_for (fs : list (bytes * bytes)) (body_len : nat) (framing : list (bytes * bytes)) : Prop :=
  if declared_chunked fs then framing = []                      (* the user's own Transfer-Encoding field is the one *)
  else framing = [(bs "content-length", dec_of (N.of_nat body_len))] \/
       (declared_length fs = None /\ framing = [(bs "transfer-encoding", bs "chunked")]).

(* what the printer theorems assume of their inputs *)
Definition inputs_ok (code : N) (reason : bytes) (fs : list (bytes * bytes)) (dv : bytes) : Prop :=
  (100 <= code <= 999)%N /\ no_crlf reason = true /\ wf_user_fields fs = true /\ wf_date_value dv = true.
