(* Specification of request heads for C02 (every well-formed head is accepted and decoded exactly)
   and C04 (every accepted head is strictly well-formed; nothing is ignored).
   Two independent descriptions:
   - a GENERATOR: structured heads [head], the RFC 9112 / RFC 3986 well-formedness predicate
     [rfc_head], their wire form [render] and what a parser must report for them;
   - a RECOGNISER: [strict_head], a deliberately simple tokenizer of the strict shape
        method SP target SP "HTTP/1." ("0"|"1") CRLF *( name ":" value CRLF ) CRLF
   Neither mentions the code's index arithmetic or its scanners. *)
From KV Require Import Lib.Bytes Model.Headers.

Definition CR := x0d.  Definition LF := x0a.  Definition SP := x20.  Definition HT := x09.
Definition CRLF : bytes := [x0d; x0a].

(* ------------------------------------------------------------------ character classes *)
Definition in_set (s : bytes) (b : byte) : bool := existsb (Byte.eqb b) s.

(* RFC 9110 tchar *)
Definition is_tchar (b : byte) : bool :=
  is_alpha b || is_digit b || in_set (bs "!#$%&'*+-.^_`|~") b.
(* RFC 3986: unreserved / sub-delims / pct-encoded bytes, then pchar, query, authority characters *)
Definition is_unreserved (b : byte) : bool := is_alpha b || is_digit b || in_set (bs "-._~") b.
Definition is_subdelim (b : byte) : bool := in_set (bs "!$&'()*+,;=") b.
Definition is_pchar (b : byte) : bool :=
  is_unreserved b || is_subdelim b || in_set (bs ":@%") b.
Definition is_path_char (b : byte) : bool := is_pchar b || Byte.eqb b x2f.                (* pchar / "/" *)
Definition is_query_char (b : byte) : bool := is_pchar b || in_set (bs "/?") b.             (* pchar / "/" / "?" *)
Definition is_authority_char (b : byte) : bool :=                                          (* userinfo@host:port, IP literals *)
  is_unreserved b || is_subdelim b || in_set (bs ":@%[]") b.
Definition is_scheme_char (b : byte) : bool := is_alpha b || is_digit b || in_set (bs "+-.") b.
(* field-value bytes: VCHAR / obs-text / SP / HTAB (no CR, LF, other controls) *)
Definition is_field_vchar (b : byte) : bool := is_vchar b || (128 <=? b2n b)%N || is_ows b.

(* ------------------------------------------------------------------ generator *)
Inductive target :=
| Origin (path : bytes) (query : option bytes)                           (* "/a/b?x" *)
| Absolute (scheme authority path : bytes) (query : option bytes)        (* "http://h:1/a?x", path may be empty *)
| AuthorityForm (a : bytes)                                              (* "example.com:443" *)
| Asterisk.                                                              (* "*" *)

Record field := { f_name : bytes; f_ows : bytes; f_value : bytes }.      (* name ":" OWS value CRLF *)
Record head := { h_method : bytes; h_target : target; h_minor : bool; h_fields : list field }.

Definition render_query (q : option bytes) : bytes :=
  match q with Some s => x3f :: s | None => [] end.
Definition render_target (t : target) : bytes :=
  match t with
  | Origin p q => p ++ render_query q
  | Absolute s a p q => s ++ bs "://" ++ a ++ p ++ render_query q
  | AuthorityForm a => a
  | Asterisk => [x2a]
  end.
Definition render_field (f : field) : bytes := f_name f ++ [x3a] ++ f_ows f ++ f_value f ++ CRLF.
Definition render (h : head) : bytes :=
  h_method h ++ [SP] ++ render_target (h_target h) ++ [SP] ++ bs "HTTP/1." ++
  [if h_minor h then x31 else x30] ++ CRLF ++ flat_map render_field (h_fields h) ++ CRLF.

Definition nonempty (l : bytes) : bool := match l with [] => false | _ => true end.
Definition opt_all (p : byte -> bool) (q : option bytes) : bool :=
  match q with Some s => forallb p s | None => true end.

Definition rfc_target (t : target) : bool :=
  match t with
  | Origin p q =>
      match p with x2f :: _ => true | _ => false end && forallb is_path_char p && opt_all is_query_char q
  | Absolute s a p q =>
      match s with c :: _ => is_alpha c | [] => false end && forallb is_scheme_char s &&
      nonempty a && forallb is_authority_char a &&
      match p with [] => true | x2f :: _ => true | _ => false end && forallb is_path_char p &&
      opt_all is_query_char q
  | AuthorityForm a =>
      (* host ":" port, no scheme: must not start like a path or "*", and contains no "://" *)
      nonempty a && forallb (fun b => is_unreserved b || is_subdelim b || in_set (bs ":%[]") b) a &&
      match a with x2a :: _ => false | _ => true end
  | Asterisk => true
  end.

Definition rfc_field (f : field) : bool :=
  nonempty (f_name f) && forallb is_tchar (f_name f) &&
  forallb is_ows (f_ows f) &&
  forallb is_field_vchar (f_value f) &&
  match f_value f with b :: _ => negb (is_ows b) | [] => true end.        (* leading OWS belongs to f_ows *)

(* alphabetic method: khttp's documented method set plus extension methods *)
Definition rfc_head (h : head) : bool :=
  nonempty (h_method h) && forallb is_alpha (h_method h) &&
  rfc_target (h_target h) && forallb rfc_field (h_fields h).

(* what must be reported: path / query split from the structure of the target *)
Definition target_path (t : target) : bytes :=
  match t with Origin p _ => p | Absolute _ _ p _ => p | AuthorityForm _ => [] | Asterisk => [x2a] end.
Definition target_query (t : target) : option bytes :=
  match t with Origin _ q => q | Absolute _ _ _ q => q | _ => None end.

(* the header collection a parser must report: fields added in order, leading OWS removed
   (a content length is exposed as a number by Headers.add itself) *)
Definition headers_of (fs : list (bytes * bytes)) : headers :=
  fold_left (fun h nv => add h (fst nv) (snd nv)) fs new_headers.
Definition field_pairs (h : head) : list (bytes * bytes) :=
  map (fun f => (f_name f, f_value f)) (h_fields h).

(* Content-Length fields of a well-formed head must be valid and agree (RFC 9112 6.3);
   a head violating that is not "conforming" for C02 *)
Definition cl_values (fs : list (bytes * bytes)) : list (option N) :=
  map (fun nv => parse_content_length (snd nv)) (filter (fun nv => eq_ic (fst nv) CONTENT_LENGTH) fs).
Definition cl_consistent (fs : list (bytes * bytes)) : bool :=
  match cl_values fs with
  | [] => true
  | None :: _ => false
  | Some n :: r => forallb (fun o => match o with Some m => N.eqb m n | None => false end) r
  end.

(* ------------------------------------------------------------------ recogniser *)
(* split at the first occurrence of byte [c]: (before, after) *)
Fixpoint split_at (c : byte) (l : bytes) : option (bytes * bytes) :=
  match l with
  | [] => None
  | b :: r => if Byte.eqb b c then Some ([], r)
              else match split_at c r with Some (x, y) => Some (b :: x, y) | None => None end
  end.

(* one CRLF-terminated line: (content before CR LF, rest).  The first LF ends the line and must be
   preceded by CR. *)
Definition take_line (l : bytes) : option (bytes * bytes) :=
  match split_at LF l with
  | None => None
  | Some (before, rest) =>
      match frev before with
      | x0d :: rb => Some (frev rb, rest)
      | _ => None
      end
  end.

Lemma take_line_unfold l : take_line l =
  match split_at LF l with
  | None => None
  | Some (before, rest) =>
      match rev before with
      | x0d :: rb => Some (rev rb, rest)
      | _ => None
      end
  end.
Proof.
  unfold take_line. destruct (split_at LF l) as [[bf r]|]; [|reflexivity].
  rewrite frev_eq. destruct (rev bf) as [|x rb]; [reflexivity|].
  destruct x; try reflexivity. rewrite frev_eq. reflexivity.
Qed.

Record sfield := { s_name : bytes; s_raw : bytes }.     (* name, everything after the colon *)
Record shead := { s_method : bytes; s_target : bytes; s_minor : bool; s_fields : list sfield }.

(* field lines up to the blank line; fuel = number of bytes (each line consumes at least 2) *)
Fixpoint strict_fields (fuel : nat) (l : bytes) : option (list sfield * bytes) :=
  match fuel with
  | O => None
  | S fuel' =>
      match l with
      | x0d :: x0a :: rest => Some ([], rest)                       (* blank line: end of head *)
      | _ =>
          match take_line l with
          | None => None
          | Some (line, rest) =>
              match split_at x3a line with
              | None => None
              | Some (name, raw) =>
                  if nonempty name && forallb is_tchar name then
                    match strict_fields fuel' rest with
                    | Some (fs, rest') => Some ({| s_name := name; s_raw := raw |} :: fs, rest')
                    | None => None
                    end
                  else None
              end
          end
      end
  end.

(* the strict shape; result: the tokens and the number of bytes consumed *)
Definition strict_head (s : bytes) : option (shead * nat) :=
  match split_at SP s with
  | None => None
  | Some (m, r1) =>
      if negb (nonempty m && forallb is_tchar m) then None else
      match split_at SP r1 with
      | None => None
      | Some (t, r2) =>
          if negb (nonempty t && forallb is_vchar t) then None else
          match strip_prefix (bs "HTTP/1.") r2 with
          | None => None
          | Some r3 =>
              match r3 with
              | d :: x0d :: x0a :: r4 =>
                  if Byte.eqb d x31 || Byte.eqb d x30 then
                    match strict_fields (S (length r4)) r4 with
                    | Some (fs, rest) =>
                        Some ({| s_method := m; s_target := t; s_minor := Byte.eqb d x31; s_fields := fs |},
                              length s - length rest)
                    | None => None
                    end
                  else None
              | _ => None
              end
          end
      end
  end.

(* the reported value of a field: what follows the colon, leading whitespace removed *)
Definition field_value (raw : bytes) : bytes := drop_while is_ows raw.
Definition sfield_pairs (fs : list sfield) : list (bytes * bytes) :=
  map (fun f => (s_name f, field_value (s_raw f))) fs.
