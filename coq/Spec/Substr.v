(* "a is (equal to) a substring of s" *)
From KV Require Import Lib.Bytes.
Definition sublist (a s : bytes) : Prop := exists p q, s = p ++ a ++ q.
