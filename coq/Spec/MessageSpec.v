(* Specification for C08: an independent strict decoder of one HTTP/1.1 message:
     start-line CRLF *( name ":" OWS value OWS CRLF ) CRLF body
   with the body delimited by exactly one framing field: Content-Length (then that many bytes) or
   Transfer-Encoding: chunked (then a chunked body, decoded by Spec/ChunkedSpec.v).
   Result: start line, all fields in order, the decoded body, and what follows the message. *)
From KV Require Import Lib.Bytes Spec.HeaderStore Spec.ChunkedSpec.

Record message := { m_start : bytes; m_fields : list (bytes * bytes); m_body : bytes; m_rest : bytes }.

(* field lines up to the blank line *)
Fixpoint dec_fields (fuel : nat) (l : bytes) : option (list (bytes * bytes) * bytes) :=
  match fuel with
  | O => None
  | S f =>
      match line_crlf l with
      | Some (Some [], rest) => Some ([], rest)
      | Some (Some line, rest) =>
          match find_index (Byte.eqb x3a) line with
          | None => None
          | Some i =>
              match dec_fields f rest with
              | Some (fs, rest') => Some ((firstn i line, strip_ows (skipn (S i) line)) :: fs, rest')
              | None => None
              end
          end
      | _ => None
      end
  end.

Definition is_name (n : bytes) (f : bytes * bytes) : bool := same_name (fst f) n.
Definition is_chunked_field (f : bytes * bytes) : bool :=
  is_name (bs "transfer-encoding") f && same_name (snd f) (bs "chunked").

Definition decode_msg (l : bytes) : option message :=
  match line_crlf l with
  | Some (Some start, r1) =>
      match dec_fields (S (length r1)) r1 with
      | None => None
      | Some (fs, r2) =>
          let cls := filter (is_name (bs "content-length")) fs in
          let tes := filter (is_name (bs "transfer-encoding")) fs in
          match cls, tes with
          | [cl], [] =>
              match cl_value (snd cl) with
              | Some n => match take_n n r2 with
                          | Some (body, rest) => Some {| m_start := start; m_fields := fs; m_body := body; m_rest := rest |}
                          | None => None
                          end
              | None => None
              end
          | [], [te] =>
              if same_name (snd te) (bs "chunked") then
                match spec_decode r2 with
                | Valid body rest => Some {| m_start := start; m_fields := fs; m_body := body; m_rest := rest |}
                | _ => None
                end
              else None
          | _, _ => None                      (* no framing field, or more than one *)
          end
      end
  | _ => None
  end.

(* ---- what a printer must produce ---- *)
Definition no_crlf (l : bytes) : bool := forallb (fun b => negb (Byte.eqb b x0d || Byte.eqb b x0a)) l.
(* a printable field: token-ish name without ':' CR LF, value without CR LF and without outer OWS *)
Definition wf_field (f : bytes * bytes) : bool :=
  match fst f with [] => false | _ => true end &&
  forallb (fun b => negb (Byte.eqb b x3a) && negb (Byte.eqb b x0d) && negb (Byte.eqb b x0a)) (fst f) &&
  no_crlf (snd f) &&
  match snd f with [] => true | b :: _ => negb (is_ows b) end &&
  match rev (snd f) with [] => true | b :: _ => negb (is_ows b) end.
