(* RFC 9112 section 6.3 for requests, over the raw field list of a head (C05).  Field values are
   comma-separated lists of case-insensitive tokens with optional whitespace (Spec/HeaderStore.v).
     1. any Transfer-Encoding present: the final coding must be chunked -> Chunked (a Content-Length,
        if any, is overridden); otherwise the request cannot be framed -> Reject (400, close)
     2. otherwise all Content-Length field values must be valid (OWS 1*DIGIT OWS, < 2^64) and equal
        -> Fixed n (Empty when n = 0); any invalid or differing value -> Reject
     3. neither -> Empty *)
From KV Require Import Lib.Bytes Model.Headers Spec.HeaderStore.

Inductive framing := FChunked | FFixed (n : N) | FEmpty | FReject.

Definition values_of (name : bytes) (fs : list (bytes * bytes)) : list bytes :=
  map snd (filter (fun f => same_name (fst f) name) fs).

(* all transfer codings named by the head, in order *)
Definition te_codings (fs : list (bytes * bytes)) : list bytes :=
  flat_map tokens (values_of (bs "transfer-encoding") fs).

Definition last_is_chunked (cs : list bytes) : bool :=
  match rev cs with c :: _ => same_name c (bs "chunked") | [] => false end.

Definition cl_decision (vs : list bytes) : framing :=
  match map cl_value vs with
  | [] => FEmpty
  | None :: _ => FReject
  | Some n :: rest =>
      if forallb (fun o => match o with Some m => N.eqb m n | None => false end) rest
      then (if N.eqb n 0 then FEmpty else FFixed n) else FReject
  end.

Definition rfc_framing (fs : list (bytes * bytes)) : framing :=
  match te_codings fs with
  | (_ :: _) as cs => if last_is_chunked cs then FChunked else FReject
  | [] => cl_decision (values_of (bs "content-length") fs)
  end.
