(* Specification for C06: fixed-length and chunked body encodings (RFC 9112 section 7.1), as a
   generator ([enc_chunked] of a structured body) and as an independent strict recogniser
   ([spec_decode]).  The recogniser is three-valued: [Valid payload rest], [Invalid why] for the
   malformations the property names (encoding cut short, chunk size that is not 1*HEXDIG or does
   not fit 64 bits, missing CRLF after chunk data) and [Unspecified] for inputs outside the
   property's grammar on which it demands nothing (bare-LF line ends, non-ASCII extensions, ...). *)
From KV Require Import Lib.Bytes.

Definition CRLF : bytes := [x0d; x0a].

Definition hexdig (b : byte) : bool :=
  match b with
  | x30 | x31 | x32 | x33 | x34 | x35 | x36 | x37 | x38 | x39
  | x41 | x42 | x43 | x44 | x45 | x46 | x61 | x62 | x63 | x64 | x65 | x66 => true
  | _ => false
  end.
Definition hexdig_val (b : byte) : N :=
  match b with
  | x30 => 0 | x31 => 1 | x32 => 2 | x33 => 3 | x34 => 4 | x35 => 5 | x36 => 6 | x37 => 7 | x38 => 8 | x39 => 9
  | x41 | x61 => 10 | x42 | x62 => 11 | x43 | x63 => 12 | x44 | x64 => 13 | x45 | x65 => 14 | x46 | x66 => 15
  | _ => 0
  end%N.
Definition hex_value (l : bytes) : N := fold_left (fun a b => a * 16 + hexdig_val b)%N l 0%N.

(* text allowed in extensions and trailer lines: visible ASCII, SP, HTAB *)
Definition text_byte (b : byte) : bool := is_vchar b || is_ows b.

(* ------------------------------------------------------------------ generator *)
Record chunk := { k_size : bytes; k_ext : bytes; k_data : bytes }.
Record cbody := { cb_chunks : list chunk; cb_zeros : bytes; cb_ext : bytes; cb_trailers : list bytes }.

Definition wf_ext (e : bytes) : bool :=
  match e with [] => true | x3b :: r => forallb text_byte r | _ => false end.
Definition nonempty (l : bytes) : bool := match l with [] => false | _ => true end.
Definition wf_chunk (c : chunk) : bool :=
  nonempty (k_size c) && forallb hexdig (k_size c) && nonempty (k_data c) &&
  N.eqb (hex_value (k_size c)) (N.of_nat (length (k_data c))) && (hex_value (k_size c) <? 2 ^ 64)%N &&
  wf_ext (k_ext c).
Definition wf_trailer (t : bytes) : bool := nonempty t && forallb text_byte t.
Definition wf_cbody (b : cbody) : bool :=
  forallb wf_chunk (cb_chunks b) && nonempty (cb_zeros b) && forallb (Byte.eqb x30) (cb_zeros b) &&
  wf_ext (cb_ext b) && forallb wf_trailer (cb_trailers b).

Definition render_chunk (c : chunk) : bytes := k_size c ++ k_ext c ++ CRLF ++ k_data c ++ CRLF.
Definition enc_chunked (b : cbody) : bytes :=
  flat_map render_chunk (cb_chunks b) ++ cb_zeros b ++ cb_ext b ++ CRLF ++
  flat_map (fun t => t ++ CRLF) (cb_trailers b) ++ CRLF.
Definition payload_of (b : cbody) : bytes := flat_map k_data (cb_chunks b).

(* ------------------------------------------------------------------ recogniser *)
Inductive why := Truncated | BadSize | BadChunkEnd.
Inductive dres := Valid (payload rest : bytes) | Invalid (w : why) | Unspecified.

(* a line: bytes up to the first LF.  Some (content-without-CRLF, rest) when it ends in CR LF;
   the flag tells whether the LF was preceded by CR *)
Fixpoint to_lf (l : bytes) : option (bytes * bytes) :=
  match l with
  | [] => None
  | b :: r => if Byte.eqb b x0a then Some ([], r)
              else match to_lf r with Some (x, y) => Some (b :: x, y) | None => None end
  end.
Definition line_crlf (l : bytes) : option (option bytes * bytes) :=
  match to_lf l with
  | None => None                                   (* no LF at all: input ends inside the line *)
  | Some (before, rest) =>
      match frev before with
      | x0d :: rb => Some (Some (frev rb), rest)
      | _ => Some (None, rest)                     (* bare LF *)
      end
  end.

(* the same with List.rev (frev is only there for linear-time extraction) *)
Lemma line_crlf_unfold l : line_crlf l =
  match to_lf l with
  | None => None
  | Some (before, rest) =>
      match rev before with
      | x0d :: rb => Some (Some (rev rb), rest)
      | _ => Some (None, rest)
      end
  end.
Proof.
  unfold line_crlf. destruct (to_lf l) as [[bf r]|]; [|reflexivity].
  rewrite frev_eq. destruct (rev bf) as [|x rb]; [reflexivity|].
  destruct x; try reflexivity. rewrite frev_eq. reflexivity.
Qed.

Fixpoint take_while (p : byte -> bool) (l : bytes) : bytes * bytes :=
  match l with
  | b :: r => if p b then let '(x, y) := take_while p r in (b :: x, y) else ([], l)
  | [] => ([], [])
  end.

(* trailer section: lines up to the blank one *)
Fixpoint dec_trailers (fuel : nat) (l : bytes) : option (option bytes) :=
  (* None = truncated, Some None = unspecified, Some (Some rest) = ok *)
  match fuel with
  | O => None
  | S fuel' =>
      match line_crlf l with
      | None => None
      | Some (None, _) => Some None
      | Some (Some [], rest) => Some (Some rest)
      | Some (Some t, rest) => if forallb text_byte t then dec_trailers fuel' rest else Some None
      end
  end.

(* the first n bytes and what follows, if there are that many *)
Fixpoint take_n (n : N) (l : bytes) : option (bytes * bytes) :=
  if N.eqb n 0 then Some ([], l)
  else match l with
       | [] => None
       | b :: r => match take_n (N.pred n) r with Some (x, y) => Some (b :: x, y) | None => None end
       end.

Fixpoint dec_chunks (fuel : nat) (l : bytes) (acc : bytes) : dres :=
  match fuel with
  | O => Invalid Truncated
  | S fuel' =>
      match line_crlf l with
      | None =>
          (* the size line is not terminated: truncated, unless it already shows a bad size *)
          let '(sz, after) := take_while hexdig l in
          match after with
          | [] => Invalid Truncated
          | b :: _ => if Byte.eqb b x3b || Byte.eqb b x0d then Invalid Truncated else Invalid BadSize
          end
      | Some (None, _) => Unspecified
      | Some (Some line, rest) =>
          let '(sz, ext) := take_while hexdig line in
          match sz with
          | [] => Invalid BadSize
          | _ =>
              match ext with
              | [] | x3b :: _ =>
                  if negb (wf_ext ext) then Unspecified
                  else if negb (hex_value sz <? 2 ^ 64)%N then Invalid BadSize
                  else if N.eqb (hex_value sz) 0 then
                    match dec_trailers (S (length rest)) rest with
                    | None => Invalid Truncated
                    | Some None => Unspecified
                    | Some (Some rest') => Valid acc rest'
                    end
                  else
                    match take_n (hex_value sz) rest with
                    | None => Invalid Truncated
                    | Some (data, after) =>
                      match after with
                      | x0d :: x0a :: rest' => dec_chunks fuel' rest' (acc ++ data)
                      | [] | [x0d] => Invalid Truncated
                      | _ => Invalid BadChunkEnd
                      end
                    end
              | _ => Invalid BadSize          (* a non-hex byte inside the size field *)
              end
          end
      end
  end.
Definition spec_decode (l : bytes) : dres := dec_chunks (S (length l)) l [].

(* fixed length n *)
Definition spec_fixed (n : N) (l : bytes) : dres :=
  match take_n n l with
  | None => Invalid Truncated
  | Some (p, rest) => Valid p rest
  end.
