(* How khttp's CLIENT delimits the body of a response, as a decision over the RAW field list of an
   accepted response head (the field lines of [strict_status_head], Spec/StatusGrammar.v), and what a
   reader that follows this decision obtains from the bytes behind the head.

   The decision (BodyReader::from_response of /repo/src/body_reader.rs, described here without it):
     1. some Transfer-Encoding field has a list member equal to "chunked" (case-insensitively, optional
        whitespace around the member ignored)                      -> chunked coding (RFC 9112 7.1)
     2. otherwise a Content-Length is declared                     -> exactly that many bytes
     3. otherwise                                                  -> everything up to the end of the stream
   Field values are comma-separated lists of case-insensitive tokens (Spec/HeaderStore.v); a Content-Length
   value is OWS 1*DIGIT OWS below 2^64 ([cl_value]).  The response parser only accepts heads whose
   Content-Length fields are all valid and carry the same number ([cl_consistent_rfc], Spec/ClSpec.v), so
   "the declared length" is the value of any of them; it is read off the first one here.

   This is what the code does, NOT RFC 9112 section 6.3 for responses.  The differences:
     - 6.3 rule 1: a response to HEAD, and any 1xx, 204 or 304 response, has no body whatever its fields
       say.  The decision below does not look at the status code or at the request method: such a
       response without framing fields is read to the end of the stream, and with "Content-Length: n"
       (legal on 304 / HEAD responses, where it describes the omitted body) n bytes are awaited.
     - 6.3 rule 2 (2xx to CONNECT: tunnel) is not known either.
     - 6.3 rule 4: the chunked coding delimits the body only when it is the FINAL coding; a response
       whose Transfer-Encoding does not end in chunked is delimited by the end of the stream.  Here
       "chunked" ANYWHERE in the list selects the chunked decoder ("chunked, gzip" is chunk-decoded, and
       no other coding is ever removed: "gzip, chunked" yields the still-compressed bytes).
     - 6.3 rule 3: a Transfer-Encoding overrides a Content-Length.  Here only one that names chunked does;
       "Transfer-Encoding: gzip" next to "Content-Length: n" is read as n bytes (6.3: to the end of the stream).
     - 6.3 rule 5: invalid or differing Content-Length values are an unrecoverable error - here such a
       head is already rejected by the parser.
   Nothing in this file mentions Model/*. *)
From KV Require Import Lib.Bytes Spec.HeaderStore Spec.HttpGrammar Spec.StatusGrammar Spec.ChunkedSpec
  Spec.Framing Spec.ClSpec.

(* the raw fields of a response head and the bytes behind it, from the strict tokenizer *)
Definition resp_raw_fields (wire : bytes) : list (bytes * bytes) :=
  match strict_status_head wire with
  | Some (sh, _) => sfield_pairs (ss_fields sh)
  | None => []
  end.
Definition resp_after_head (wire : bytes) : bytes :=
  match strict_status_head wire with
  | Some (_, n) => skipn n wire
  | None => []
  end.

Inductive rframing := RChunked | RFixed (n : N) | RToEnd.

(* some member of some Transfer-Encoding list is "chunked" *)
Definition names_chunked (raw : list (bytes * bytes)) : bool :=
  existsb (fun coding => same_name coding (bs "chunked")) (te_codings raw).

(* the declared length: the value of the first Content-Length field (all of them agree in an accepted head) *)
Definition resp_declared_length (raw : list (bytes * bytes)) : option N :=
  match cl_values_rfc raw with
  | Some n :: _ => Some n
  | _ => None
  end.

Definition resp_framing (raw : list (bytes * bytes)) : rframing :=
  if names_chunked raw then RChunked
  else match resp_declared_length raw with
       | Some n => RFixed n
       | None => RToEnd
       end.

(* what the bytes behind the head mean under a framing: the payload, an error (the encoding is cut short or
   malformed: its end cannot be established), or nothing demanded (outside the grammar of Spec/ChunkedSpec.v) *)
Inductive rbody := RBody (payload : bytes) | RBroken | RUnspec.

Definition resp_body (f : rframing) (rest : bytes) : rbody :=
  match f with
  | RChunked => match spec_decode rest with Valid p _ => RBody p | Invalid _ => RBroken | Unspecified => RUnspec end
  | RFixed n => match spec_fixed n rest with Valid p _ => RBody p | Invalid _ => RBroken | Unspecified => RUnspec end
  | RToEnd => RBody rest
  end.

(* The property, clause by clause.  [delivers p]: the client hands exactly p to its caller, followed by the
   end of the body; [fails]: its read ends in an error (no response is obtained). *)
Definition framing_clauses (raw : list (bytes * bytes)) (rest : bytes)
                           (delivers : bytes -> Prop) (fails : Prop) : Prop :=
  match resp_framing raw with
  | RChunked => (forall p tail, spec_decode rest = Valid p tail -> delivers p) /\
                (forall w, spec_decode rest = Invalid w -> fails)
  | RFixed n => (forall p tail, spec_fixed n rest = Valid p tail -> delivers p) /\
                (forall w, spec_fixed n rest = Invalid w -> fails)
  | RToEnd => delivers rest
  end.

(* ------------------------------------------------------------------ for comparison: RFC 9112 6.3 *)
(* The decision RFC 9112 section 6.3 prescribes for a response to a request other than HEAD / CONNECT
   (rules 1, 3-8; Content-Length validity is the parser's business as above).  It is NOT what the client
   does: Proofs/ClientFraming.v refutes the corresponding statements with concrete responses. *)
Definition status_without_body (code : N) : bool :=
  ((100 <=? code) && (code <? 200))%N || N.eqb code 204 || N.eqb code 304.

Definition rfc_resp_framing (code : N) (raw : list (bytes * bytes)) : rframing :=
  if status_without_body code then RFixed 0
  else match te_codings raw with
       | _ :: _ as cs => if last_is_chunked cs then RChunked else RToEnd
       | [] => match resp_declared_length raw with
               | Some n => RFixed n
               | None => RToEnd
               end
       end.
