(* What C08 demands of a printed message when the header collection is ARBITRARY: any [headers] value whose
   cached facts agree with what it stores - in particular [hrun ops] / [hrun_from dated ops] for every
   history [ops] of add / replace / remove / set_content_length / set_transfer_encoding_chunked /
   set_connection_close whose field names are non-empty tokens and whose values are free of CR and LF.
   Nothing here assumes at most one Transfer-Encoding / Content-Length field, a valid Content-Length value
   or values without outer whitespace (that is Spec/PrinterSpec.v's [wf_user_fields]). *)
From KV Require Import Lib.Bytes Model.Headers Model.Printer Spec.HeaderStore Spec.ChunkedSpec Spec.MessageSpec
  Spec.PrinterSpec.
From KV Require Spec.HttpGrammar.

Notation field := (bytes * bytes)%type (only parsing).

(* ------------------------------------------------------------------ admissible histories *)
(* a field name: 1*tchar (RFC 9110); a field value: any bytes except CR and LF *)
Definition name_ok (n : bytes) : bool :=
  match n with [] => false | _ => true end && forallb HttpGrammar.is_tchar n.
Definition value_ok (v : bytes) : bool := no_crlf v.

(* set_content_length takes an Option<u64>; remove takes any name (nothing of it is printed) *)
Definition op_ok (o : hop) : bool :=
  match o with
  | OAdd n v => name_ok n && value_ok v
  | OReplace n v => name_ok n && value_ok v
  | ORemove _ => true
  | OSetCL (Some n) => (n <? 2 ^ 64)%N
  | OSetCL None => true
  | OSetChunked => true
  | OSetClose => true
  end.
Definition ops_ok (ops : list hop) : bool := forallb op_ok ops.

(* Headers::new() or Headers::new_nodate(), then the history *)
Definition hrun_from (dated : bool) (ops : list hop) : headers :=
  fold_left hstep ops (if dated then new_headers else new_nodate).

(* ------------------------------------------------------------------ arbitrary collections *)
(* what may sit in the Vec of a collection: printable fields other than Content-Length (Headers::add lifts
   that one out into the cached length) *)
Definition stored_field_ok (f : field) : bool :=
  name_ok (fst f) && value_ok (snd f) && negb (is_clf f).

(* a collection whose cached facts are those of its stored fields; every [hrun_from dated ops] with
   [ops_ok ops] is one (Proofs/PrinterRoundGen.v, [hrun_coherent]) *)
Definition coherent (h : headers) : Prop :=
  forallb stored_field_ok (stored h) = true /\
  chunked h = eval_chunked (stored h) /\
  (forall d, content_length h = Some d -> (d < 2 ^ 64)%N).

(* ------------------------------------------------------------------ what a peer must see *)
(* a peer reads a field value without the optional whitespace around it *)
Definition norm_field (f : field) : field := (fst f, strip_ows (snd f)).

(* the fields besides the framing field the printer adds: everything stored, in order, then the date *)
Definition shown_fields_gen (st : list field) (dated : bool) (date_value : bytes) : list field :=
  map norm_field st ++ (if dated then [(bs "date", date_value)] else []).
Definition shown_fields_of (h : headers) (date_value : bytes) : list field :=
  shown_fields_gen (stored h) (print_date h) date_value.

(* the Transfer-Encoding fields of a collection *)
Definition te_fields_st (st : list field) : list field := filter is_te st.
Definition te_fields (h : headers) : list field := te_fields_st (stored h).

(* THE side condition: no Transfer-Encoding field at all, or exactly one whose value is "chunked" (any case,
   optional whitespace around it).  Content-Length declarations do not matter: they are never stored. *)
Definition printable_st (st : list field) : bool :=
  match te_fields_st st with
  | [] => true
  | [te] => same_name (strip_ows (snd te)) (bs "chunked")
  | _ => false
  end.
Definition printable (h : headers) : bool := printable_st (stored h).

(* the user's own Transfer-Encoding field is the framing field *)
Definition user_chunked_st (st : list field) : bool :=
  match te_fields_st st with [] => false | _ => true end.
Definition user_chunked (h : headers) : bool := user_chunked_st (stored h).

(* the framing field the printer adds, given the declared length [decl] (the cached content length) *)
Definition framing_for_st (st : list field) (decl : option N) (body_len : nat) (framing : list field) : Prop :=
  if user_chunked_st st then framing = []
  else framing = [(bs "content-length", dec_of (N.of_nat body_len))] \/
       (decl = None /\ framing = [(bs "transfer-encoding", bs "chunked")]).
Definition framing_for_gen (h : headers) (body_len : nat) (framing : list field) : Prop :=
  framing_for_st (stored h) (content_length h) body_len framing.

(* "exactly one framing header consistent with the body", read off a decoded field list *)
Definition exactly_one_framing (fields : list field) (body_len : nat) : Prop :=
  (exists cl, filter is_clf fields = [cl] /\ cl_value (snd cl) = Some (N.of_nat body_len) /\ filter is_te fields = []) \/
  (exists te, filter is_clf fields = [] /\ filter is_te fields = [te] /\ same_name (snd te) (bs "chunked") = true).

Definition status_ok (code : N) (reason : bytes) : Prop := (100 <= code <= 999)%N /\ no_crlf reason = true.

(* the field lines of a byte string as the strict decoder of Spec/MessageSpec.v reads them (for the witnesses) *)
Definition parsed_fields (l : bytes) : option (list field) :=
  match line_crlf l with
  | Some (Some _, r1) => match dec_fields (S (length r1)) r1 with Some (fs, _) => Some fs | None => None end
  | _ => None
  end.
(* ... and what follows the blank line *)
Definition parsed_payload (l : bytes) : option bytes :=
  match line_crlf l with
  | Some (Some _, r1) => match dec_fields (S (length r1)) r1 with Some (_, r2) => Some r2 | None => None end
  | _ => None
  end.

(* histories that never introduce a Transfer-Encoding field (whatever they do with Content-Length) *)
Definition adds_te (o : hop) : bool :=
  match o with
  | OAdd n _ => same_name n (bs "transfer-encoding")
  | OReplace n _ => same_name n (bs "transfer-encoding")
  | OSetChunked => true
  | _ => false
  end.
Definition te_free (ops : list hop) : bool := forallb (fun o => negb (adds_te o)) ops.

(* histories in which a Transfer-Encoding field is only ever introduced by set_transfer_encoding_chunked *)
Definition te_by_set_only (ops : list hop) : bool :=
  forallb (fun o => match o with
                    | OAdd n _ => negb (same_name n (bs "transfer-encoding"))
                    | OReplace n _ => negb (same_name n (bs "transfer-encoding"))
                    | _ => true
                    end) ops.
