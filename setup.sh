#!/bin/sh
# MANIFEST.setup_cmd: build everything from files on disk (offline): all Coq proofs, the oracle, the harness.
set -e
cd "$(dirname "$0")"
export CARGO_NET_OFFLINE=true
( cd coq && timeout 3000 ./mk.sh -k all ) 2>&1 | tail -5 || true
( cd oracle && ./build.sh )
( cd harness && cargo build --release --offline 2>&1 | tail -2 )
echo "setup done"
