(* oracle side of the `epoll` stream: replay of recorded serve_epoll event logs through the extracted
   transition system (enabledness + safety obligations), after the normalisations that the logging
   discipline calls for (DESIGN.md 4.4):
   - a release-type operation is logged BEFORE it happens: `D<i>` (EPOLL_CTL_DEL) takes effect somewhere
     between its log entry and `X<i>`; `R<i>` / `C<i>` (stores) may take effect after a later CAS/load of
     the event loop - they are moved behind an event of the same connection that still saw the old value;
   - epoll_wait and client actions are not logged: a Wait is inserted at the start of every batch with
     exactly the connections the loop then looks at, preceded by the client sends that make them ready. *)
open Conv
module M = Model

let expand (trace : string) : string list =
  if trace = "" then [] else
    List.concat_map (fun g ->
        match String.index_opt g '*' with
        | Some i -> let body = split_on ',' (String.sub g 0 i) and n = int_of_string (String.sub g (i + 1) (String.length g - i - 1)) in
          List.concat (List.init n (fun _ -> body))
        | None -> split_on ',' g) (split_on ';' trace)

type tok = { k : char; c : int; failed : bool }
let tok_of s =
  if s = "B" then { k = 'B'; c = -1; failed = false }
  else
    let failed = s.[String.length s - 1] = '!' in
    let num = String.sub s 1 (String.length s - 1 - (if failed then 1 else 0)) in
    { k = s.[0]; c = int_of_string num; failed }

let to_labels (toks : tok list) : M.elabel list =
  let failed = Hashtbl.create 8 in
  List.iter (fun t -> if t.k = 'A' && t.failed then Hashtbl.replace failed t.c ()) toks;
  (* D<i> right before X<i> *)
  let toks = List.filter (fun t -> t.k <> 'D') toks in
  let toks = List.concat_map (fun t -> if t.k = 'X' && not (Hashtbl.mem failed t.c) then [{ k = 'D'; c = t.c; failed = false }; t] else [t]) toks in
  (* split into batches (ending with B) *)
  let rec batches acc cur = function
    | [] -> List.rev (if cur = [] then acc else List.rev cur :: acc)
    | t :: r -> if t.k = 'B' then batches (List.rev (t :: cur) :: acc) [] r else batches acc (t :: cur) r in
  let n c = nat_of_int c in
  List.concat_map (fun b ->
      let members = List.sort_uniq compare (List.filter_map (fun t -> if t.k = 'V' then Some t.c else None) b) in
      let sends = List.map (fun c -> M.LClientSend (n c)) members in
      let rec go = function
        | [] -> []
        | t :: r ->
          (match t.k with
           | 'A' -> M.LAccept (not t.failed) :: go r
           | 'V' ->
             (* outcome: the loop's next own event on this record *)
             let rec outcome = function
               | [] -> (M.OBusy, None)
               | u :: _ when (u.k = 'S' || u.k = 'O') && u.c = t.c -> ((if u.k = 'S' then M.OStale else M.ODispatched), Some u)
               | u :: _ when u.k = 'V' || u.k = 'B' || u.k = 'A' || u.k = 'F' -> (M.OBusy, None)
               | _ :: rest -> outcome rest in
             let (o, used) = outcome r in
             (match used with
              | None -> M.LEvent (n t.c, o) :: go r
              | Some u ->
                (* the combined label sits where the outcome was logged *)
                let rec place = function
                  | [] -> []
                  | x :: rest when x == u -> { k = 'E'; c = t.c; failed = (o = M.OStale) } :: rest
                  | x :: rest -> x :: place rest in
                go (place r))
           | 'E' -> M.LEvent (n t.c, (if t.failed then M.OStale else M.ODispatched)) :: go r
           | 'S' | 'O' -> go r
           | 'F' -> if Hashtbl.mem failed t.c then go r else M.LFree (n t.c) :: go r
           | 'X' -> if Hashtbl.mem failed t.c then go r else M.LStreamDrop (n t.c) :: go r
           | 'B' -> M.LBatchEnd :: go r
           | 'J' -> M.LJobStart0 (n t.c) :: go r
           | 'R' -> M.LRearm (n t.c) :: go r
           | 'D' -> M.LDel (n t.c) :: go r
           | 'C' -> M.LClosedStore (n t.c) :: go r
           | 'G' -> M.LGrave (n t.c) :: go r
           | _ -> failwith "bad token") in
      let body = go b in
      (* accepts of this batch come first in the log anyway; the Wait goes before everything the loop does *)
      sends @ [M.LWait (List.map n members)] @ body) (batches [] [] toks)

let conn_of_label = function
  | M.LEvent (c, _) | M.LRearm c | M.LClosedStore c | M.LGrave c | M.LJobStart0 c | M.LDel c | M.LStreamDrop c | M.LFree c | M.LClientSend c | M.LClientClose c -> int_of_nat c
  | _ -> -1

(* move the nearest preceding LRearm / LClosedStore of connection c behind position i *)
let delay_store (labels : M.elabel array) (i : int) : M.elabel array option =
  let c = conn_of_label labels.(i) in
  let rec find j =
    if j < 0 then None
    else match labels.(j) with
      | M.LRearm c' | M.LClosedStore c' when int_of_nat c' = c -> Some j
      | l when conn_of_label l = c && (match l with M.LClientSend _ -> false | _ -> true) -> None
      | _ -> find (j - 1) in
  match find (i - 1) with
  | None -> None
  | Some j ->
    let l = Array.to_list labels in
    let moved = List.nth l j in
    let without = List.filteri (fun k _ -> k <> j) l in
    (* position i shifted by one to the left after removal; insert after it *)
    let rec ins k = function
      | [] -> [moved]
      | x :: r -> if k = i - 1 then x :: moved :: r else x :: ins (k + 1) r in
    Some (Array.of_list (ins 0 without))

(* number of tokens the run-length encoded trace stands for *)
let expanded_size (trace : string) : int =
  if trace = "" then 0 else
    List.fold_left (fun a g ->
        match String.index_opt g '*' with
        | Some i -> a + List.length (split_on ',' (String.sub g 0 i)) * int_of_string (String.sub g (i + 1) (String.length g - i - 1))
        | None -> a + List.length (split_on ',' g)) 0 (split_on ';' trace)

let eval case impl =
  ignore case;
  match split_on ' ' impl with
  | trace :: rest when expanded_size trace > 4_000_000 ->
    (* an event loop that spun for seconds (a connection stuck in flight): the run has failed its client checks anyway;
       the log is not replayed *)
    let get k = List.fold_left (fun a t -> match split_on '=' t with [k'; v] when k' = k -> v | _ -> a) "?" rest in
    let clients_ok = get "clients" = "ok" in
    ("TRACE-TOO-LONG clients=" ^ get "clients", (if clients_ok then [] else [("C14", "-")]) @ [("C15", "-")])
  | trace :: rest ->
    let toks = List.map tok_of (expand trace) in
    (* serve_epoll returns from inside a batch (StopAccepting): close the last batch *)
    let toks = (match List.rev toks with t :: _ when t.k = 'B' -> toks | _ -> toks @ [{ k = 'B'; c = -1; failed = false }]) in
    let labels0 = Array.of_list (to_labels toks) in
    let rec attempt labels tries =
      match M.replay M.ep_init (Array.to_list labels) M.O with
      | M.VAccepted s -> ("ACCEPTED", Some s)
      | M.VUnsafe i -> (Printf.sprintf "UNSAFE step %d" (int_of_nat i), None)
      | M.VRejected i ->
        let i = int_of_nat i in
        (match labels.(i) with
         | M.LEvent (_, M.OBusy) when tries > 0 ->
           (match delay_store labels i with Some l' -> attempt l' (tries - 1) | None -> (Printf.sprintf "REJECTED step %d" i, None))
         | _ -> (Printf.sprintf "REJECTED step %d" i, None)) in
    let (verdict, final) = attempt labels0 200 in
    let get k = List.fold_left (fun a t -> match split_on '=' t with [k'; v] when k' = k -> v | _ -> a) "?" rest in
    let clients_ok = get "clients" = "ok" in
    let accepted = int_of_string (get "accepted") and freed = int_of_string (get "freed") and dropped = int_of_string (get "dropped") in
    let c14 = verdict = "ACCEPTED" && clients_ok in
    (* every accepted connection has ended by the end of the run: its stream must have been dropped exactly once *)
    let streams_ok = dropped = accepted && (match final with Some s -> M.all_ended s && int_of_nat (M.open_streams s) = 0 | None -> false) in
    let leak = accepted - freed in
    (* the allocator's view must agree with the event log: one record allocated per accept, one deallocated per logged free -
       a record freed anywhere else (or twice, or never allocated through the loop) shows here *)
    let reca = (try int_of_string (get "recalloc") with _ -> accepted) and recf = (try int_of_string (get "recfree") with _ -> freed) in
    let alloc_ok = reca = accepted && recf = freed in
    (* runs that leave the server alone before stopping it: nothing may be held then *)
    let quiet_ok = (match get "quiet" with "ok" | "skipped" | "?" -> true | _ -> false) in
    let alloc_ok = alloc_ok && quiet_ok in
    let c15_other = verdict <> "ACCEPTED" || not streams_ok || not alloc_ok in
    let fails =
      (if c14 then [] else [("C14", "-")]) @
      (* (repaired finding F25: every accepted connection has ended, so every record must have been freed by the time
         serve_epoll has returned) *)
      (if c15_other || leak > 0 then [("C15", "-")] else []) in
    let model = if verdict = "ACCEPTED" && streams_ok && clients_ok && alloc_ok && leak = 0 then impl
      else verdict ^ (if leak > 0 then Printf.sprintf " records-not-freed=%d" leak else "") ^ (if streams_ok then "" else " streams-not-all-dropped") ^ (if alloc_ok then "" else Printf.sprintf " allocator-disagrees(recalloc=%d accepted=%d recfree=%d freed=%d)" reca accepted recf freed) in
    (model, fails)
  | [] -> ("?", [("C14", "-"); ("C15", "-")])
