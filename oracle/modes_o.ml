(* oracle side of the `modes` stream (C16 lifecycle hooks, C17 equivalence of the three serve modes) *)
open Conv
module M = Model

let canon_entries (t : string) : string =
  (* drop lock-step points without a response *)
  String.concat ";" (List.filter (fun e -> e <> "TIMEOUT" && e <> "CLOSED" && e <> "") (split_on ';' t))

(* expected (transcript, hook log) of one connection from the model of handle_connection *)
let expect_conn ?(max_head = 4096) ?(wdead = false) (proceed : bool) (steps : string) : string * string =
  if not proceed then ("|EOF", "S")
  else if wdead then begin
    (* the write half of the server's stream is shut down: the first response write fails, the request loop ends with that
       error and the teardown hook is handed it; nothing reaches the client.  (Generated with a single request.) *)
    let (maxh, segs, _nr, _closed) = Conn_o.parse_script ("N=" ^ string_of_int max_head ^ ";" ^ steps) in
    let r = M.serve_conn Conn_o.the_app (nat_of_int maxh) segs in
    let attempted = r.M.c_resps <> [] in
    let hooks = "S" ^ (if int_of_nat r.M.c_requests >= 1 then ",P" else "") ^ (if attempted || not r.M.c_ok then ",T(err)" else ",T(ok)") in
    ("|EOF", hooks)
  end
  else begin
    let (maxh, segs, _nr, closed) = Conn_o.parse_script ("N=" ^ string_of_int max_head ^ ";" ^ steps) in
    let r = M.serve_conn Conn_o.the_app (nat_of_int maxh) segs in
    let resps = String.concat ";" (List.map Conn_o.show_resp r.M.c_resps) in
    let fin = if r.M.c_waiting && not closed then "OPEN" else "EOF" in
    let hooks = "S" ^ String.concat "" (List.init (int_of_nat r.M.c_requests) (fun _ -> ",P")) ^ (if r.M.c_ok then ",T(ok)" else ",T(err)") in
    (resps ^ "|" ^ fin, hooks)
  end

let contains_sub (s : string) (sub : string) : bool =
  try ignore (Str.search_forward (Str.regexp_string sub) s 0); true with Not_found -> false

let eval case0 impl =
  (* optional thread-count prefix *)
  (* optional prefixes T<n>! (thread count) and N<n>! (head limit) *)
  let max_head = ref 4096 in
  let rec strip c =
    if String.length c > 2 && (c.[0] = 'T' || c.[0] = 'N' || c.[0] = 'L') && c.[1] >= '0' && c.[1] <= '9' then
      (match String.index_opt c '!' with
       | Some i ->
         (match int_of_string_opt (String.sub c 1 (i - 1)) with
          | Some v -> if c.[0] = 'N' then max_head := v; strip (String.sub c (i + 1) (String.length c - i - 1))
          | None -> c)
       | None -> c)
    else c in
  let case0 = if String.length case0 > 2 && String.sub case0 0 2 = "B!" then String.sub case0 2 (String.length case0 - 2) else case0 in
  let case = strip case0 in
  let max_head = !max_head in
  (* histories with routes the application model does not have (interim responses): the three modes are compared with each other only *)
  let differential = contains_sub case (hex_of_bytes (bytes_of_string "/cont")) in
  let conns = List.map (fun c -> match String.index_opt c ':' with
      | Some i -> (String.sub c 0 i, String.sub c (i + 1) (String.length c - i - 1))
      | None -> failwith "bad conn") (split_on '/' case) in
  let expected = if differential then [] else List.map (fun (k, s) -> expect_conn ~max_head ~wdead:(k = "W") (k <> "X") s) conns in
  let exp_line mode =
    Printf.sprintf "mode=%s conns=[%s] returned=1" mode
      (String.concat "|" (List.map (fun (t, h) -> t ^ "#hooks=" ^ h) expected)) in
  ignore exp_line;
  (* parse the implementation line *)
  let modes = Str.split (Str.regexp_string " ## ") impl in
  let parse_mode m =
    (* mode=<name> conns=[...] [extra=..] returned=<b> *)
    let i0 = (try Str.search_forward (Str.regexp_string "conns=[") m 0 with Not_found -> -1) in
    let i1 = (try String.rindex m ']' with Not_found -> -1) in
    if i0 < 0 || i1 < 0 then ([], "?", m) else begin
      let inner = String.sub m (i0 + 7) (i1 - i0 - 7) in
      (* connections are separated by '|' but transcripts contain one '|' before the final state: split on "|" carefully:
         each connection = <entries>|<FIN>#hooks=<...> *)
      let parts = Str.split (Str.regexp "|") inner in
      let rec pair = function
        | a :: b :: rest -> (a, b) :: pair rest
        | _ -> [] in
      let cs = List.map (fun (entries, finhooks) ->
          match Str.bounded_split (Str.regexp_string "#hooks=") finhooks 2 with
          | [fin; hooks] -> (canon_entries entries ^ "|" ^ fin, hooks)
          | [fin] -> (canon_entries entries ^ "|" ^ fin, "")
          | _ -> ("?", "?")) (pair (List.map (fun s -> s) (let l = ref [] in
                                                           (* keep empty leading entries: Str.split drops empty strings, so re-split manually *)
                                                           let buf = Buffer.create 64 in
                                                           String.iter (fun ch -> if ch = '|' then (l := Buffer.contents buf :: !l; Buffer.clear buf) else Buffer.add_char buf ch) inner;
                                                           l := Buffer.contents buf :: !l; ignore parts; List.rev !l))) in
      let tail = String.sub m (i1 + 1) (String.length m - i1 - 1) in
      (cs, tail, String.sub m 0 i0)
    end in
  let parsed = List.map parse_mode modes in
  let exp_cs = List.map (fun (t, h) -> (let i = String.index t '|' in canon_entries (String.sub t 0 i) ^ String.sub t i (String.length t - i)), h) expected in
  let mode_ok (cs, tail, _) =
    List.length cs = List.length exp_cs && String.trim tail = "returned=1" in
  let transcripts_of (cs, _, _) = List.map fst cs and hooks_of (cs, _, _) = List.map snd cs in
  let mode_ok m = if differential then (let (cs, tail, _) = m in List.length cs = List.length conns && String.trim tail = "returned=1") else mode_ok m in
  let all_same f = (match parsed with a :: rest -> List.for_all (fun p -> f p = f a) rest | [] -> false) in
  (* the harness's teardown hook writes a 599 response when it is handed an error: the modes must agree on it (raw comparison),
     the application model does not know it (entries starting with 599 are dropped before the comparison with the model) *)
  let no599 t =
    (match String.index_opt t '|' with
     | Some i -> String.concat ";" (List.filter (fun e -> not (String.length e >= 4 && String.sub e 0 4 = "599,")) (split_on ';' (String.sub t 0 i)))
                 ^ String.sub t i (String.length t - i)
     | None -> t) in
  let no599 t = let u = no599 t in if String.length u > 0 && u.[0] = ';' then u else u in
  let c17 =
    List.length parsed = 3 && List.for_all mode_ok parsed && all_same transcripts_of &&
    (differential || List.for_all (fun p -> List.map no599 (transcripts_of p) = List.map fst exp_cs) parsed) in
  let hook_shape h = (* S, then P's, then exactly one T(..) *)
    (match split_on ',' h with
     | "S" :: rest -> (match List.rev rest with
         | t :: ps -> String.length t > 2 && String.sub t 0 2 = "T(" && List.for_all (fun x -> x = "P") ps
         | [] -> false)
     | _ -> false) in
  let c16 = List.length parsed = 3 && List.for_all mode_ok parsed &&
            (if differential then all_same hooks_of && List.for_all (fun p -> List.for_all hook_shape (hooks_of p)) parsed
             else List.for_all (fun p -> hooks_of p = List.map snd exp_cs) parsed) in
  let model = String.concat " ## " (List.map (fun m -> exp_line m) ["pool"; "threaded"; "epoll"]) in
  (* recorded finding F28: a connection the client keeps open across StopAccepting is abandoned by serve_epoll:
     its teardown hook never runs.  Trigger: the history has a K connection and only the epoll mode's hook log
     of that connection lacks the teardown entry. *)
  let is_kept c = String.length c > 1 && (String.sub c 0 2 = "K:" || String.sub c 0 2 = "Q:") in
  let has_kept = List.exists is_kept (split_on '/' case) in
  let f28 =
    (not c16) && (not differential) && has_kept && List.length parsed = 3 &&
    (match parsed with
     | [p; t; e] ->
       mode_ok p && mode_ok t && hooks_of p = List.map snd exp_cs && hooks_of t = List.map snd exp_cs &&
       List.for_all2 (fun (et, eh) ((_, ih), c) ->
           ignore et;
           if is_kept c then ih = eh || ih ^ ",T(ok)" = eh else ih = eh)
         exp_cs (List.combine (let (cs, _, _) = e in cs) (split_on '/' case))
     | _ -> false) in
  ((if c16 && c17 then impl else model), (if c16 then [] else [("C16", if f28 then "F28" else "-")]) @ (if c17 then [] else [("C17", "-")]))
