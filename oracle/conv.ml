(* Glue between OCaml values and the extracted inductives (trusted; validated at start-up). *)
module M = Model
type byte = M.byte

let rec pos_of_int i =
  if i <= 1 then M.XH else if i land 1 = 0 then M.XO (pos_of_int (i lsr 1)) else M.XI (pos_of_int (i lsr 1))
let n_of_int i = if i <= 0 then M.N0 else M.Npos (pos_of_int i)
let z_of_int i = if i = 0 then M.Z0 else if i > 0 then M.Zpos (pos_of_int i) else M.Zneg (pos_of_int (-i))
let rec int_of_pos = function M.XH -> 1 | M.XO p -> 2 * int_of_pos p | M.XI p -> 2 * int_of_pos p + 1
let int_of_n = function M.N0 -> 0 | M.Npos p -> int_of_pos p
let int_of_z = function M.Z0 -> 0 | M.Zpos p -> int_of_pos p | M.Zneg p -> - (int_of_pos p)
let rec nat_of_int i = if i <= 0 then M.O else M.S (nat_of_int (i - 1))
let rec int_of_nat = function M.O -> 0 | M.S n -> 1 + int_of_nat n

(* decimal strings of arbitrary size -> N / Z (for u64 values above max_int) *)
let n_of_string (s : string) : M.n =
  let ten = M.Npos (M.XO (M.XI (M.XO M.XH))) in
  let r = ref M.N0 in
  String.iter (fun c -> r := M.N.add (M.N.mul !r ten) (n_of_int (Char.code c - 48))) s; !r
let rec string_of_n (x : M.n) : string =
  (* via repeated division by 10 *)
  let ten = M.Npos (M.XO (M.XI (M.XO M.XH))) in
  match x with
  | M.N0 -> "0"
  | _ ->
    let rec go x acc = match x with
      | M.N0 -> acc
      | _ -> let (q, r) = M.N.div_eucl x ten in go q (string_of_int (int_of_n r) ^ acc) in
    go x ""

let byte_tab : byte array = Array.init 256 (fun i -> M.n2b (n_of_int i))
let byte_of_int i = byte_tab.(i land 255)
(* a constant-constructor variant is represented by its index; checked below *)
let int_of_byte (b : byte) : int = (Obj.magic b : int)
let () =
  for i = 0 to 255 do
    if int_of_byte (byte_of_int i) <> i || int_of_n (M.b2n (byte_of_int i)) <> i then
      failwith "oracle: byte representation check failed"
  done

let hexdig = "0123456789abcdef"
let hex_of_bytes (l : byte list) : string =
  match l with
  | [] -> "-"
  | _ ->
    let b = Buffer.create 64 in
    List.iter (fun x -> let i = int_of_byte x in
                Buffer.add_char b hexdig.[i lsr 4]; Buffer.add_char b hexdig.[i land 15]) l;
    Buffer.contents b
let hv c = match c with
  | '0'..'9' -> Char.code c - 48 | 'a'..'f' -> Char.code c - 87 | 'A'..'F' -> Char.code c - 55
  | _ -> failwith "bad hex"
let bytes_of_hex (s : string) : byte list =
  if s = "-" then [] else begin
    let n = String.length s / 2 in
    let rec go i acc = if i < 0 then acc else go (i - 1) (byte_of_int (hv s.[2*i] * 16 + hv s.[2*i+1]) :: acc) in
    go (n - 1) []
  end
let bytes_of_string (s : string) : byte list =
  let rec go i acc = if i < 0 then acc else go (i - 1) (byte_of_int (Char.code s.[i]) :: acc) in
  go (String.length s - 1) []
let string_of_bytes (l : byte list) : string =
  let b = Buffer.create 64 in List.iter (fun x -> Buffer.add_char b (Char.chr (int_of_byte x))) l; Buffer.contents b

let split_on c s = String.split_on_char c s
