(* oracle side of the `memory` stream: measured peak heap against the constants of the ledger theorems *)
open Conv
module M = Model

let eval case impl =
  match split_on ' ' case with
  | [dir; _framing; variant; _lens] ->
    let probe = int_of_nat M.pROBE_MAX and bufw = int_of_nat M.bUFWRITER and bufr = int_of_n M.bUF_SIZE in
    (* heap part of the ledger (C20_response_bound): head Vec (512 initial, grows with the head) + collected Vec
       (amortised growth: at most twice PROBE_MAX) + BufWriter; the 128 KiB chunk buffer and the io::copy buffer live on
       the stack.  Request side (C20_reader_bound / C20_drain_bound): the BufReader's 4 KiB + a framing line.
       Server: both, plus the request head buffer (default limit 8 KiB) and the thread/socket bookkeeping of the harness *)
    let wbound = 1024 + 2 * probe + bufw and rbound = bufr + 256 in
    (* bighead: nothing but the head buffer (limit 6000) and the 431 answer: limit + 4000 (measured: limit + 2936..3448) *)
    let bound = match dir with "W" | "Q" -> wbound | "R" -> rbound | _ -> if variant = "bighead" then 6000 + 4000 else wbound + rbound + 8192 + 8192 in
    let ms = List.map (fun e -> match split_on ':' e with
        | [l; p; _a; ok] -> (int_of_string l, int_of_string p, ok = "1") | _ -> failwith "bad measurement") (split_on ' ' impl) in
    let all_ok = List.for_all (fun (_, _, ok) -> ok) ms in
    let within = List.for_all (fun (_, p, _) -> p <= bound) ms in
    (* no growth with the length: beyond 256 KiB (past every fixed buffer) the peak is the same to within 2 KiB *)
    let big = List.filter (fun (l, _, _) -> l >= 262144) ms in
    let slack = if dir = "S" then 4096 else 2048 in
    let flat = match big with
      | [] -> true
      | (_, p0, _) :: _ -> List.for_all (fun (_, p, _) -> abs (p - p0) <= slack) big in
    let good = all_ok && within && flat in
    ((if good then impl else Printf.sprintf "bound=%d within=%b flat=%b ok=%b" bound within flat all_ok), if good then [] else [("C20", "-")])
  | _ -> failwith "bad memory case"
