(* oracle side of the `pool` stream: trace acceptance by the extracted transition system *)
open Conv
module M = Model

let label_of (t : string) : M.label =
  (* a thread that is not a pool worker reports usize::MAX: any id the pool cannot have *)
  let num s = nat_of_int (match int_of_string_opt s with Some n when n >= 0 && n < 100000 -> n | _ -> 99999) in
  let rest = String.sub t 1 (String.length t - 1) in
  match t.[0] with
  | 'S' -> M.LSend | 'D' -> M.LDropSender | 'J' -> M.LJoined | 'R' -> M.LReturned
  | 'L' -> M.LLock (num rest) | 'U' -> M.LUnlock (num rest) | 'X' -> M.LExit (num rest)
  | 'B' -> (match split_on '.' rest with [j; w] -> M.LJobStart (num j, num w) | _ -> failwith "bad B")
  | 'E' -> M.LJobEnd (num rest)
  | _ -> failwith ("bad token " ^ t)

let eval case impl =
  let cf = split_on ' ' case in
  let workers = int_of_string (List.nth cf 1) in
  let njobs = if List.hd cf = "P" then workers else int_of_string (List.nth cf 2) in
  match split_on ' ' impl with
  | trace :: rest ->
    let toks = if trace = "" then [] else split_on ',' trace in
    let labels = List.map label_of toks in
    let init = M.pool_init (nat_of_int workers) in
    let verdict =
      match M.first_rejected init labels M.O with
      | Some i -> Printf.sprintf "REJECTED at %d (%s)" (int_of_nat i) (List.nth toks (int_of_nat i))
      | None ->
        (match M.run init labels with
         | Some s ->
           let returned = (match s.M.p_main with M.MReturned -> true | _ -> false) in
           let ndone = List.length s.M.p_done in
           if returned && ndone = njobs && int_of_nat s.M.p_sent = njobs then "ACCEPTED" else
             Printf.sprintf "INCOMPLETE returned=%b done=%d sent=%d" returned ndone (int_of_nat s.M.p_sent)
         | None -> "REJECTED") in
    let side_ok = List.for_all (fun t -> t = "counts=ok" || t = "par=ok" || t = "unwound=ok") rest in
    let ok = verdict = "ACCEPTED" && side_ok in
    ((if verdict = "ACCEPTED" then impl else verdict), if ok then [] else [("C13", "-")])
  | [] -> ("?", [("C13", "-")])
