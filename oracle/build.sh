#!/bin/sh
# Build the oracle: extract the Coq models (coq/Extract/Extract.v -> model.ml) and compile the driver.
set -e
cd "$(dirname "$0")"
# dependencies of Extract.v (models and specs) through the project Makefile, then extract here
( cd ../coq && ./mk.sh Extract/Extract.vo >/dev/null 2>&1 ) || { echo "oracle: coq build of models failed"; exit 1; }
rm -f model.ml model.mli
coqc -Q ../coq KV -w -all ../coq/Extract/Extract.v >/dev/null
[ -f model.ml ] || { echo "oracle: no model.ml (extraction failed)"; exit 1; }
ocamlfind ocamlopt -O3 -w -a -package str -linkpkg model.mli model.ml conv.ml parse_o.ml body_o.ml conn_o.ml printer_o.ml pool_o.ml modes_o.ml epoll_o.ml memory_o.ml main.ml -o oracle 2>/dev/null \
  || ocamlfind ocamlopt -w -a -package str -linkpkg model.mli model.ml conv.ml parse_o.ml body_o.ml conn_o.ml printer_o.ml pool_o.ml modes_o.ml epoll_o.ml memory_o.ml main.ml -o oracle
