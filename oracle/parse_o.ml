(* oracle side of the parse / prefix / grammar streams *)
open Conv
module M = Model

let b01 b = if b then "1" else "0"
let hdrs_str (h : M.headers) =
  Printf.sprintf "cl=%s ch=%s cc=%s h=[%s]"
    (match h.M.content_length with None -> "-" | Some n -> string_of_n n)
    (b01 h.M.chunked) (b01 h.M.connection_close)
    (String.concat "," (List.map (fun (k, v) -> hex_of_bytes k ^ ":" ^ hex_of_bytes v) h.M.stored))

let res_str f = function M.Ok x -> f x | M.Err _ -> "!" | M.Fault _ -> "!"
let opt_hex = function Some s -> hex_of_bytes s | None -> "none"

let request_line (input : M.byte list) : string =
  match M.parse_request input with
  | M.Err M.EEof -> "INC"
  | M.Err _ -> "REJ"
  | M.Fault M.FOob -> "FAULT-OOB"
  | M.Fault M.FStr -> "FAULT-STR"
  | M.Fault M.FFuel -> "FAULT-FUEL"
  | M.Ok r ->
    let u = r.M.q_target in
    Printf.sprintf "OK m=%s t=%s v=%d %s off=%d path=%s q=%s sch=%s auth=%s pq=%s"
      (hex_of_bytes (M.method_str r.M.q_meth)) (hex_of_bytes u.M.full) (int_of_n r.M.q_version)
      (hdrs_str r.M.q_hdrs) (int_of_nat r.M.q_offset)
      (res_str hex_of_bytes (M.uri_path u)) (res_str opt_hex (M.uri_query u)) (res_str opt_hex (M.uri_scheme u))
      (res_str opt_hex (M.uri_authority u)) (res_str hex_of_bytes (M.uri_path_and_query u))

let response_line (input : M.byte list) : string =
  match M.parse_response input with
  | M.Err M.EEof -> "INC"
  | M.Err _ -> "REJ"
  | M.Fault _ -> "FAULT"
  | M.Ok r ->
    Printf.sprintf "OK v=%d code=%d reason=%s %s off=%d" (int_of_n r.M.r_version) (int_of_n r.M.r_code)
      (hex_of_bytes r.M.r_reason) (hdrs_str r.M.r_hdrs) (int_of_nat r.M.r_offset)

(* key=value fields of an impl line *)
let kv (line : string) : (string * string) list =
  List.filter_map (fun t -> match String.index_opt t '=' with
      | Some i -> Some (String.sub t 0 i, String.sub t (i + 1) (String.length t - i - 1))
      | None -> None) (split_on ' ' line)
let get k l = try List.assoc k l with Not_found -> "?"

let is_ok s = String.length s >= 3 && String.sub s 0 3 = "OK "
let is_faulty s = not (is_ok s || s = "INC" || s = "REJ")

(* C04: the accepted head, re-tokenised by the strict recogniser, must give exactly what was reported *)
let c04_ok (input : M.byte list) (impl : string) : bool =
  if not (is_ok impl) then true else
    match M.strict_head input with
    | None -> false
    | Some (sh, n) ->
      let f = kv impl in
      let h = M.headers_of (M.sfield_pairs sh.M.s_fields) in
      get "off" f = string_of_int (int_of_nat n)
      && get "m" f = hex_of_bytes sh.M.s_method
      && get "t" f = hex_of_bytes sh.M.s_target
      && get "v" f = (if sh.M.s_minor then "1" else "0")
      && (Printf.sprintf "cl=%s ch=%s cc=%s h=%s" (get "cl" f) (get "ch" f) (get "cc" f) (get "h" f)) = hdrs_str h
      (* every Content-Length line is reported through the content-length value: an accepted head has only valid, agreeing ones *)
      && M.cl_consistent_rfc (M.sfield_pairs sh.M.s_fields)

(* C01: every text piece reported for an accepted request (method, target and its parts) is a substring of the input
   (Spec/Substr.v `sublist`), compared on the hex form at byte alignment *)
let hex_sub (hay : string) (needle : string) : bool =
  let n = String.length needle and h = String.length hay in
  if n = 0 then true else begin
    let found = ref false and i = ref 0 in
    while not !found && !i + n <= h do
      if String.sub hay !i n = needle then found := true else i := !i + 2
    done; !found end
let c01_sub_ok (input : M.byte list) (impl : string) : bool =
  if not (is_ok impl) then true else
    let f = kv impl and hay = hex_of_bytes input in
    let piece k =
      let v = get k f in
      (* accessor results are printed as <hex>, `none`, `-`, or an error word: only hex strings are pieces of text *)
      if v = "?" || v = "-" || v = "none" || v = "" then true
      else if String.length v mod 2 = 0 && String.for_all (fun c -> (c >= '0' && c <= '9') || (c >= 'a' && c <= 'f')) v then hex_sub hay v
      else true in
    List.for_all piece ["m"; "t"; "path"; "q"; "sch"; "auth"; "pq"]

let parse_case (case : string) : bool * M.byte list =
  (case.[0] = 'Q', bytes_of_hex (String.sub case 1 (String.length case - 1)))

let eval_parse case impl =
  let (is_req, input) = parse_case case in
  let model = if is_req then request_line input else response_line input in
  let fails = (if is_faulty impl || (is_req && not (c01_sub_ok input impl)) then [("C01", "-")] else [])
              @ (if is_req && not (is_faulty impl) && not (c04_ok input impl) then [("C04", "-")] else []) in
  (model, fails)

(* C03: over the verdicts of all prefixes, once A or R always the same, and accepted results equal *)
let c03_ok (v : string) : bool =
  let n = String.length v in
  let ok = ref true and seen = ref 'I' in
  String.iteri (fun i c ->
      if c = '!' || c = 'X' then ok := false
      else if !seen = 'A' && c <> 'A' && i < n then ok := false
      else if !seen = 'R' && c <> 'R' then ok := false
      else if c = 'A' || c = 'R' then seen := c) v;
  !ok

let eval_prefix case impl =
  let (is_req, input) = parse_case case in
  let arr = Array.of_list input in
  let n = Array.length arr in
  let b = Buffer.create (n + 8) in
  let first = ref None and changed = ref false in
  for k = 0 to n do
    let pre = Array.to_list (Array.sub arr 0 k) in
    let r = if is_req then request_line pre else response_line pre in
    let c = if r = "INC" then 'I' else if r = "REJ" then 'R' else if is_ok r then 'A' else 'X' in
    (if c = 'A' then match !first with None -> first := Some r | Some f -> if f <> r then changed := true);
    Buffer.add_char b c
  done;
  if !changed then Buffer.add_string b "!changed";
  let v = if String.contains impl '!' then "!" else impl in
  (Buffer.contents b, (if c03_ok v && c03_ok impl then [] else [("C03", "-")]))

(* grammar stream: `<m> <target> <minor> [<fields>] <trailing> <bytes>` *)
let eval_grammar case impl =
  match split_on ' ' case with
  | [m; t; minor; fields; trailing; bytes] ->
    let oq s = if s = "none" then None else Some (bytes_of_hex s) in
    let target = match split_on ',' t with
      | ["O"; p; q] -> M.Origin (bytes_of_hex p, oq q)
      | ["A"; s; a; p; q] -> M.Absolute (bytes_of_hex s, bytes_of_hex a, bytes_of_hex p, oq q)
      | ["H"; a] -> M.AuthorityForm (bytes_of_hex a)
      | ["S"] -> M.Asterisk
      | _ -> failwith "bad target" in
    let inner = String.sub fields 1 (String.length fields - 2) in
    let fs = if inner = "" then [] else List.map (fun e -> match split_on ':' e with
        | [n; o; v] -> { M.f_name = bytes_of_hex n; M.f_ows = bytes_of_hex o; M.f_value = bytes_of_hex v }
        | _ -> failwith "bad field") (split_on ',' inner) in
    let h = { M.h_method = bytes_of_hex m; M.h_target = target; M.h_minor = (minor = "1"); M.h_fields = fs } in
    let rendered = M.render h in
    let input = bytes_of_hex bytes in
    let model = request_line input in
    if hex_of_bytes (rendered @ bytes_of_hex trailing) <> bytes then ("RENDER-MISMATCH " ^ model, [("HARNESS", "-")])
    else if not (M.rfc_head h && M.cl_consistent_rfc (M.field_pairs h)) then (model, [])
    else begin
      let f = kv impl in
      let exp_h = M.headers_of (M.field_pairs h) in
      let ok = is_ok impl
               && get "m" f = m
               && get "t" f = hex_of_bytes (M.render_target target)
               && get "v" f = minor
               && (Printf.sprintf "cl=%s ch=%s cc=%s h=%s" (get "cl" f) (get "ch" f) (get "cc" f) (get "h" f)) = hdrs_str exp_h
               && get "off" f = string_of_int (List.length rendered)
               && get "path" f = hex_of_bytes (M.target_path target)
               && get "q" f = opt_hex (M.target_query target) in
      (model, (if ok then [] else [("C02", "-")]) @ (if is_faulty impl then [("C01", "-")] else []))
    end
  | _ -> failwith "bad grammar case"

(* readloop stream: `<hex> <segmentations>`; impl = transcripts joined by '#'.
   C03: every segmentation gives the same transcript, and its class is the one-shot verdict's. *)
let eval_readloop case impl =
  match split_on ' ' case with
  | [h; _] ->
    let input = bytes_of_hex h in
    let v = request_line input in
    let cls = if v = "INC" then "incomplete" else if v = "REJ" then "rejected" else if is_ok v then "answered" else "fault" in
    let ts = split_on '#' impl in
    let first = match ts with t :: _ -> t | [] -> "" in
    let starts p s = String.length s >= String.length p && String.sub s 0 (String.length p) = p in
    let icls = if starts "CLOSED" first then "incomplete" else if starts "400," first then "rejected"
      else if starts "TIMEOUT" first then "timeout" else "answered" in
    let same = List.for_all (fun t -> t = first) ts in
    (* the model line: class of the verdict, and "same" for segmentation independence *)
    ((cls ^ " same"), (if same && icls = cls then [] else [("C03", "-")]))
  | _ -> failwith "bad readloop case"

(* clientread stream: response bytes under several segmentations through khttp::Client *)
let eval_clientread case impl =
  match split_on ' ' case with
  | [h; _] ->
    let input = bytes_of_hex h in
    let v = response_line input in
    let cls = if v = "INC" then "incomplete" else if v = "REJ" then "rejected" else if is_ok v then "answered" else "fault" in
    let ts = split_on '#' impl in
    let first = match ts with t :: _ -> t | [] -> "" in
    let starts p s = String.length s >= String.length p && String.sub s 0 (String.length p) = p in
    let icls = if starts "ERR,incomplete" first then "incomplete" else if starts "ERR,rejected" first then "rejected"
      else if starts "OK," first then "answered" else "other" in
    let same = List.for_all (fun t -> t = first) ts in
    let m = cls ^ " same" in
    (* C06 on the client side: the body the caller reads is the payload the framing fields delimit (the peer closes after the
       last byte): chunked -> the decoded payload, Content-Length n -> the next n bytes, neither -> everything up to the close *)
    let c06_bad =
      match M.parse_response input with
      | M.Ok r ->
        let rec drop n l = if n = 0 then l else (match l with [] -> [] | _ :: t -> drop (n - 1) t) in
        let rest = drop (int_of_nat r.M.r_offset) input in
        let h = r.M.r_hdrs in
        let expected =
          if h.M.chunked then
            (match M.spec_decode rest with M.Valid (p, _) -> Some (hex_of_bytes p) | M.Invalid _ -> Some "BODYERR" | M.Unspecified -> None)
          else match h.M.content_length with
            | Some n -> let n = int_of_n n in
              if List.length rest >= n then Some (hex_of_bytes (List.filteri (fun i _ -> i < n) rest)) else Some "BODYERR"
            | None -> Some (hex_of_bytes rest) in
        (match expected with
         | None -> false
         | Some e ->
           let want = Printf.sprintf "OK,%d,%s" (int_of_n r.M.r_code) e in
           List.exists (fun t -> starts "OK," t && t <> want) ts)
      | _ -> false in
    ((if icls ^ (if same then " same" else " differs") = m then impl else m),
     (if same && icls = cls then [] else [("C03", "-")]) @ (if c06_bad then [("C06", "-")] else []))
  | _ -> failwith "bad clientread case"
