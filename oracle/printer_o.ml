(* oracle side of the `printer` stream *)
open Conv
module M = Model

let date0 = bytes_of_string "date: Thu, 01 Jan 1970 00:00:00 GMT\r\n"

let show_msg (raw : M.byte list) : string =
  match M.decode_msg raw with
  | Some m ->
    Printf.sprintf "MSG %s [%s] %s rest=%s" (hex_of_bytes m.M.m_start)
      (String.concat "," (List.map (fun (k, v) -> hex_of_bytes k ^ ":" ^ hex_of_bytes v) m.M.m_fields))
      (hex_of_bytes m.M.m_body) (hex_of_bytes m.M.m_rest)
  | None -> "UNDECODABLE " ^ hex_of_bytes raw

let lower s = String.lowercase_ascii s

let rec eval case impl =
  (* `<case> ## <case>`: messages printed one after the other on one thread; the earlier ones (whose writers may fail) are
     history only: the LAST message is judged, on its own *)
  match Str.split (Str.regexp_string " ## ") case, Str.split (Str.regexp_string " ## ") impl with
  | (_ :: _ :: _ as cs), is when List.length cs = List.length is ->
    let last l = List.nth l (List.length l - 1) in
    let (m, fails) = eval (last cs) (last is) in
    let prefix = String.concat " ## " (List.filteri (fun i _ -> i < List.length is - 1) is) in
    (prefix ^ " ## " ^ m, fails)
  | (_ :: _ :: _), _ -> ("?", [("C08", "-")])
  | _ ->
  match split_on ' ' case with
  | [ep; code; reason; dflag; fields; pieces; acc] ->
    let code_i = int_of_string code in
    let reason_b = bytes_of_hex reason in
    let inner = String.sub fields 1 (String.length fields - 2) in
    (* entries: `n:v` add, `=n:v` replace, `-n` remove, `!L<n>` / `!L-` set_content_length, `!T` set_transfer_encoding_chunked *)
    let op_of (e : string) : M.hop =
      let nv s = match split_on ':' s with [n; v] -> (bytes_of_hex n, bytes_of_hex v) | _ -> failwith "bad field" in
      let tl = String.sub e 1 (String.length e - 1) in
      match e.[0] with
      | '=' -> let (n, v) = nv tl in M.OReplace (n, v)
      | '-' -> M.ORemove (bytes_of_hex tl)
      | '!' -> if tl = "T" then M.OSetChunked
        else if tl = "L-" then M.OSetCL None
        else M.OSetCL (Some (n_of_int (int_of_string (String.sub tl 1 (String.length tl - 1)))))
      | _ -> let (n, v) = nv e in M.OAdd (n, v) in
    let ops = if inner = "" then [] else List.map op_of (split_on ',' inner) in
    let h0 = if dflag = "d" then M.new_headers else M.new_nodate in
    let h = List.fold_left M.hstep h0 ops in
    let ps = if pieces = "-" then [] else List.map bytes_of_hex (split_on ',' pieces) in
    let body = List.concat ps in
    let acc1 = if acc = "-" then 1 lsl 40 else int_of_string (List.hd (split_on ',' acc)) in
    let accn = nat_of_int (min acc1 400000) in
    let res = match ep with
      | "E" -> M.write_response_empty (n_of_int code_i) reason_b h date0
      | "B" -> M.write_response_bytes (n_of_int code_i) reason_b h date0 body accn
      | "R" -> M.write_response (n_of_int code_i) reason_b h date0 ps accn
      | _ -> M.write_request (bytes_of_string "PUT") (bytes_of_string "/t") h date0 ps accn in
    let (mraw, mst) = match res with M.WOk o -> (o, "ok") | M.WErr o -> (o, "err") in
    let (iraw, ist) = match split_on ' ' impl with [a; b] -> ((if a = "-" then [] else bytes_of_hex a), b) | _ -> ([], "?") in
    (* compare at the level the property observes: the decoded message *)
    let model = show_msg mraw ^ " " ^ mst in
    let icanon = show_msg iraw ^ " " ^ ist in
    (* spec: what the message must decode to, from the inputs alone *)
    let start = if ep = "Q" then "PUT /t HTTP/1.1" else Printf.sprintf "HTTP/1.1 %d %s" code_i (string_of_bytes reason_b) in
    (* the header set as the independent store (Spec/HeaderStore.v) sees the same operations *)
    (* (a peer reads field values without their outer optional whitespace: Spec/PrinterSpecGen.v norm_field) *)
    let stored_raw = List.fold_left M.store_step [] ops in
    let stored = List.map M.norm_field stored_raw in
    let declared_cl = match M.spec_cl ops with Some n -> Some (int_of_n n) | None -> None in
    let declared_chunked = M.eval_chunked stored_raw in
    let datef = if dflag = "d" then [(bytes_of_string "date", bytes_of_string "Thu, 01 Jan 1970 00:00:00 GMT")] else [] in
    let blen = List.length body in
    let ok =
      match M.decode_msg iraw with
      | None ->
        (* only acceptable when the declared length exceeds what the reader delivers (the writer must then fail) *)
        (match declared_cl with Some d when (ep = "R" || ep = "Q") && not declared_chunked && d > blen -> ist = "err" | _ -> false)
      | Some m ->
        let fields_ok extra = m.M.m_fields = stored @ datef @ extra in
        string_of_bytes m.M.m_start = start && m.M.m_rest = [] &&
        (if declared_chunked then fields_ok [] && m.M.m_body = body
         else match declared_cl with
           | Some d when ep = "R" || ep = "Q" ->
             (* a declared length is never exceeded; when it is the true length the body is reproduced *)
             fields_ok [(bytes_of_string "content-length", bytes_of_string (string_of_int d))] &&
             d <= blen && m.M.m_body = List.filteri (fun i _ -> i < d) body
           | _ ->
             m.M.m_body = body &&
             (fields_ok [(bytes_of_string "content-length", bytes_of_string (string_of_int blen))]
              || fields_ok [(bytes_of_string "transfer-encoding", bytes_of_string "chunked")])) in
    (* recorded finding F37: a user-supplied Transfer-Encoding whose stored fields are not exactly one `chunked`
       (Spec/PrinterSpecGen.v printable_st; bytes_printable_iff: exactly then the output is not one correctly framed message) *)
    let tag = if M.printable_st stored_raw then "-" else "F37" in
    (* the model is faithful to F37: an output that also differs from the model's is something else than the recorded finding *)
    let tag = if tag = "F37" && model <> icanon then "-" else tag in
    ((if model = icanon then impl else model), if ok then [] else [("C08", tag)])
  | _ -> failwith "bad printer case"
