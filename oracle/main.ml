(* oracle — runs the extracted Coq models/spec checkers on the cases the harness ran.
   usage: oracle run <stream> <cases-file> <impl-file>      (prints DIFF / SPECFAIL / DONE lines)
          oracle eval <stream> <case>                        (prints the model's result)          *)
open Conv

(* A stream evaluator returns the model's canonical result line for a case, and a list of
   (property, known-finding-id option) for every spec checker the implementation's line fails. *)
type verdict = { model : string; fails : (string * string) list }

let eval_stream (stream : string) (case : string) (impl : string) : verdict =
  match stream with
  | "date" ->
    let m = hex_of_bytes (Model.format_http_date (z_of_int (int_of_string case))) in
    (* C18: the model is proved equal to the calendar spec on the whole domain, so a difference
       from it is a difference from the spec *)
    { model = m; fails = (if m <> impl then [("C18", "-")] else []) }
  | "datecache" ->
    let rs = List.map (fun s -> z_of_int (int_of_string s)) (split_on ',' case) in
    let outs = Model.cache_run Model.cache_init rs in
    let m = String.concat "," (List.map hex_of_bytes outs) in
    { model = m; fails = (if m <> impl then [("C18", "-")] else []) }
  | s -> failwith ("unknown stream " ^ s)

let () =
  match Array.to_list Sys.argv with
  | [_; "eval"; stream; case] ->
    print_endline (eval_stream stream case "").model
  | [_; "check"; stream; case; impl] ->
    let v = eval_stream stream case impl in
    Printf.printf "MODEL\t%s\n" v.model;
    List.iter (fun (p, k) -> Printf.printf "FAIL\t%s\t%s\n" p k) v.fails
  | [_; "run"; stream; cases; impl] ->
    let ic = open_in cases and ii = open_in impl in
    let n = ref 0 and nd = ref 0 and nf = ref 0 in
    (try
       while true do
         let c = input_line ic in
         let i = (try input_line ii with End_of_file -> failwith "impl file shorter than cases file") in
         let v = eval_stream stream c i in
         if v.model <> i then begin
           incr nd;
           if !nd <= 50 then Printf.printf "DIFF\t%d\t%s\t%s\t%s\n" !n c i v.model
         end;
         List.iter (fun (p, k) ->
             incr nf;
             if !nf <= 200 then Printf.printf "SPECFAIL\t%s\t%d\t%s\t%s\t%s\n" p !n k c i) v.fails;
         incr n
       done
     with End_of_file -> ());
    Printf.printf "DONE\t%d\t%d\t%d\n" !n !nd !nf
  | _ -> prerr_endline "usage: oracle run <stream> <cases> <impl> | oracle eval <stream> <case>"; exit 2
