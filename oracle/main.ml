(* oracle — runs the extracted Coq models/spec checkers on the cases the harness ran.
   usage: oracle run <stream> <cases-file> <impl-file>      (prints DIFF / SPECFAIL / DONE lines)
          oracle eval <stream> <case>                        (prints the model's result)          *)
open Conv

(* A stream evaluator returns the model's canonical result line for a case, and a list of
   (property, known-finding-id option) for every spec checker the implementation's line fails. *)
type verdict = { model : string; fails : (string * string) list }

let eval_stream (stream : string) (case : string) (impl : string) : verdict =
  match stream with
  | "date" ->
    let m = hex_of_bytes (Model.format_http_date (z_of_int (int_of_string case))) in
    (* C18: the model is proved equal to the calendar spec on the whole domain, so a difference
       from it is a difference from the spec *)
    { model = m; fails = (if m <> impl then [("C18", "-")] else []) }
  | "datecache" ->
    (* entries f<secs> (get_date_from_secs) and u (get_date_now_uncached at the current clock) do not touch the cache: the cached
       calls see the history of plain readings only *)
    let items = split_on ',' case in
    let plain = List.filter (fun s -> s <> "u" && s.[0] <> 'f') items in
    let couts = ref (Model.cache_run Model.cache_init (List.map (fun s -> z_of_int (int_of_string s)) plain)) in
    let last = ref 0 in
    let outs = List.map (fun s ->
        if s = "u" then Model.format_http_date (z_of_int !last)
        else if s.[0] = 'f' then Model.format_http_date (z_of_int (int_of_string (String.sub s 1 (String.length s - 1))))
        else begin last := int_of_string s; match !couts with o :: r -> couts := r; o | [] -> failwith "cache_run length" end) items in
    let m = String.concat "," (List.map hex_of_bytes outs) in
    { model = m; fails = (if m <> impl then [("C18", "-")] else []) }
  | "dateresp" ->
    (* the Date line must be the formatted clock reading at the writer's first write (requests carry no Date unless the
       header set asks for one: Headers::new() does) *)
    (match split_on ' ' impl with
     | [d; first] when first <> "-1" ->
       (* "never lags the clock by more than one second": the reading at the first write, or the second before it *)
       let t = int_of_string first in
       let m = hex_of_bytes (Model.format_http_date (z_of_int t)) in
       let m1 = hex_of_bytes (Model.format_http_date (z_of_int (max 0 (t - 1)))) in
       { model = (if d = m1 then m1 else m) ^ " " ^ first; fails = (if d <> m && d <> m1 then [("C18", "-")] else []) }
     | _ -> { model = "?"; fails = [("C18", "-")] })
  | "dateclock" ->
    (* real clock: every reported date must be the formatted second s for some before-1 <= s <= after *)
    let ok_triple t = match split_on ':' t with
      | [_k; tb; ta; d] ->
        let tb = int_of_string tb and ta = int_of_string ta in
        let rec any s = s <= ta && (hex_of_bytes (Model.format_http_date (z_of_int s)) = d || any (s + 1)) in
        ta - tb <= 5 && any (max 0 (tb - 1))
      | _ -> false in
    let good = impl <> "" && List.for_all ok_triple (split_on ',' impl) in
    { model = (if good then impl else "some date outside [before-1, after]"); fails = (if good then [] else [("C18", "-")]) }
  | "router" ->
    (match split_on '|' case with
     | [regs; qs] ->
       let meth_of s =
         if String.length s > 0 && s.[0] = 'c' then Model.Custom (bytes_of_hex (String.sub s 1 (String.length s - 1)))
         else Model.Std (n_of_int (int_of_string s)) in
       let plist s = if s = "" then [] else
           List.map (fun e -> match split_on ',' e with
               | [m; p] -> (meth_of m, bytes_of_hex p) | _ -> failwith "bad router entry") (split_on ';' s) in
       let table = List.mapi (fun i (m, p) -> ((m, p), n_of_int i)) (plist regs) in
       let show r = match r with
         | Model.Fallback -> "F"
         | Model.Found (h, ps) ->
           String.concat "," (string_of_int (int_of_n h) ::
                              List.map (fun (k, v) -> hex_of_bytes k ^ "=" ^ hex_of_bytes v) ps) in
       let queries = plist qs in
       let ms = List.map (fun (m, p) -> show (Model.match_route table m p)) queries in
       let model = String.concat ";" ms in
       let fails =
         if Model.wf_table table then begin
           let impls = Array.of_list (split_on ';' impl) in
           let f11 = ref false and f12 = ref false in
           List.iteri (fun i (m, p) ->
               let sp = show (Model.spec_route table m p) in
               let im = if i < Array.length impls then impls.(i) else "?" in
               if sp <> im then begin
                 (* `F+<n>`: the fallback was selected but handed n leftover parameters: same handler, wrong parameters *)
                 let hd x = let h = List.hd (split_on ',' x) in if String.length h > 1 && h.[0] = 'F' && h.[1] = '+' then "F" else h in
                 if hd sp <> hd im then f11 := true else f12 := true
               end) queries;
           (if !f11 then [("C11", "-")] else []) @ (if !f12 then [("C12", "-")] else [])
         end else [] in
       { model; fails }
     | _ -> failwith "bad router case")
  | "headers" ->
    let parse_op o =
      let rest = String.sub o 1 (String.length o - 1) in
      match o.[0] with
      | 'A' | 'R' -> (match split_on ',' rest with
          | [n; v] -> if o.[0] = 'A' then Model.OAdd (bytes_of_hex n, bytes_of_hex v) else Model.OReplace (bytes_of_hex n, bytes_of_hex v)
          | _ -> failwith "bad op")
      | 'D' -> Model.ORemove (bytes_of_hex rest)
      | 'L' -> Model.OSetCL (if rest = "-" then None else Some (n_of_string rest))
      | 'T' -> Model.OSetChunked
      | 'C' -> Model.OSetClose
      | _ -> failwith "bad op" in
    (* optional constructor prefix V<n> / S<n> (the first n adds go through a bulk constructor: their per-step dumps are `~` except
       the last) or N (new_nodate): for the model and the spec a constructor is the same history of adds *)
    let raw_ops = List.filter (fun x -> x <> "") (split_on ';' case) in
    let (masked, raw_ops) = match raw_ops with
      | o :: rest when o.[0] = 'V' || o.[0] = 'S' ->
        let rec lead = function x :: r when x.[0] = 'A' -> 1 + lead r | _ -> 0 in
        let n = min (try int_of_string (String.sub o 1 (String.length o - 1)) with _ -> 0) (lead rest) in
        (max 0 (n - 1), rest)
      | o :: rest when o = "N" -> (0, rest)
      | l -> (0, l) in
    let mask l = List.mapi (fun i x -> if i < masked then "~" else x) l in
    let ops = List.map parse_op raw_ops in
    let b01 b = if b then "1" else "0" in
    let cl_s = function None -> "-" | Some n -> string_of_n n in
    let fields_s fs = "[" ^ String.concat "," (List.map (fun (k, v) -> hex_of_bytes k ^ ":" ^ hex_of_bytes v) fs) ^ "]" in
    let probes = ["transfer-encoding"; "CONNECTION"; "x-other"; "Content-Length"] in
    let toks_s l = "[" ^ String.concat "," (List.map hex_of_bytes l) ^ "]" in
    (* model *)
    let h = ref Model.new_headers in
    let steps = List.map (fun o ->
        h := Model.hstep !h o;
        Printf.sprintf "cl=%s,ch=%s,cc=%s,n=%d" (cl_s !h.Model.content_length) (b01 !h.Model.chunked)
          (b01 !h.Model.connection_close) (List.length !h.Model.stored)) ops in
    let hf = !h in
    let gs = List.map (fun p ->
        let pb = bytes_of_string p in
        Printf.sprintf "|g:%s=%s/%s" (hex_of_bytes pb)
          (match Model.get hf pb with Some v -> hex_of_bytes v | None -> "none") (fields_s (Model.get_all hf pb))) probes in
    let model = String.concat ";" (mask steps) ^ "|" ^ fields_s hf.Model.stored ^ String.concat "" gs
                ^ "|te=" ^ toks_s (Model.token_values hf (bytes_of_string "transfer-encoding"))
                ^ "|cv=" ^ toks_s (Model.token_values hf (bytes_of_string "connection")) in
    (* spec, evaluated independently of the model: history -> stored fields -> fresh evaluation *)
    let st = ref [] and hist = ref [] in
    let ssteps = List.map (fun o ->
        st := Model.store_step !st o; hist := !hist @ [o];
        Printf.sprintf "cl=%s,ch=%s,cc=%s,n=%d" (cl_s (Model.spec_cl !hist)) (b01 (Model.eval_chunked !st))
          (b01 (Model.eval_close !st)) (List.length !st)) ops in
    let sf = !st in
    let sgs = List.map (fun p ->
        let pb = bytes_of_string p in
        Printf.sprintf "|g:%s=%s/%s" (hex_of_bytes pb)
          (match Model.lookup_last sf pb with Some v -> hex_of_bytes v | None -> "none") (fields_s (Model.lookup_all sf pb))) probes in
    let tv name = List.concat_map (fun (_, v) -> Model.tokens v) (Model.lookup_all sf (bytes_of_string name)) in
    let spec = String.concat ";" (mask ssteps) ^ "|" ^ fields_s sf ^ String.concat "" sgs
               ^ "|te=" ^ toks_s (tv "transfer-encoding") ^ "|cv=" ^ toks_s (tv "connection") in
    { model; fails = (if spec <> impl then [("C19", "-")] else []) }
  | "parse" -> let (model, fails) = Parse_o.eval_parse case impl in { model; fails }
  | "prefix" -> let (model, fails) = Parse_o.eval_prefix case impl in { model; fails }
  | "swar" ->
    (* the scanners called directly: model = the word-at-a-time functions of Model/Parser.v; spec = index of the first byte
       that is not visible ASCII / that is '?' or SP (uri_tail / path_tail; C01_scan_* prove model = spec) *)
    let input = if case = "-" then [] else bytes_of_hex case in
    let line u p = Printf.sprintf "u=%d p=%d" (int_of_nat u) (int_of_nat p) in
    let m = line (Model.match_uri_vectored input) (Model.match_path_vectored input) in
    let sp = line (Model.uri_tail input) (Model.path_tail input) in
    { model = m; fails = (if impl <> sp then [("C01", "-")] else []) }
  | "prefixsafe" -> { model = impl; fails = (if String.contains impl 'X' then [("C01", "-")] else []) }
  | "grammar" -> let (model, fails) = Parse_o.eval_grammar case impl in { model; fails }
  | "poolsrv" ->
    (* every one of the k handlers met the others: k jobs made progress at the same time *)
    let ok = impl <> "" && List.for_all (fun x -> x = "200") (split_on ',' impl) in
    { model = (if ok then impl else "all 200"); fails = (if ok then [] else [("C13", "-")]) }
  | "segpair" -> let (model, fails) = Conn_o.eval_segpair case impl in { model; fails }
  | "connpipe" -> let (model, fails) = Conn_o.eval_pipe case impl in { model; fails }
  | "readloop" -> let (model, fails) = Conn_o.eval_readloop case impl in { model; fails }
  | "conn05" -> let (model, fails) = Conn_o.eval ["C05"] case impl in { model; fails }
  | "conn07" -> let (model, fails) = Conn_o.eval ["C07"] case impl in { model; fails }
  | "conn09" -> let (model, fails) = Conn_o.eval ["C09"] case impl in { model; fails }
  | "conn10" -> let (model, fails) = Conn_o.eval ["C10"] case impl in { model; fails }
  | "printer" -> let (model, fails) = Printer_o.eval case impl in { model; fails }
  | "pool" -> let (model, fails) = Pool_o.eval case impl in { model; fails }
  | "modes" -> let (model, fails) = Modes_o.eval case impl in { model; fails }
  | "modes10" ->
    (* C10 in every serve mode *)
    let (model, fails) = Modes_o.eval case impl in
    { model; fails = List.filter_map (fun (p, k) -> if p = "C17" then Some ("C10", k) else None) fails }
  | "modes03" ->
    (* C03 in every serve mode: the outcome for a head does not depend on how its bytes were segmented, nor on the mode *)
    let (model, fails) = Modes_o.eval case impl in
    { model; fails = List.filter_map (fun (p, k) -> if p = "C17" then Some ("C03", k) else None) fails }
  | "modes09" ->
    (* C09 in every serve mode: the transcripts of the three modes must be the model's *)
    let (model, fails) = Modes_o.eval case impl in
    { model; fails = List.filter_map (fun (p, k) -> if p = "C17" then Some ("C09", k) else None) fails }
  | "epoll" -> let (model, fails) = Epoll_o.eval case impl in { model; fails }
  | "memory" -> let (model, fails) = Memory_o.eval case impl in { model; fails }
  | "clientread" -> let (model, fails) = Parse_o.eval_clientread case impl in { model; fails }
  | "body" -> let (model, fails) = Body_o.eval case impl in { model; fails }
  | s -> failwith ("unknown stream " ^ s)

let () =
  match Array.to_list Sys.argv with
  | [_; "eval"; stream; case] ->
    print_endline (eval_stream stream case "").model
  | [_; "check"; stream; case; impl] ->
    let v = eval_stream stream case impl in
    Printf.printf "MODEL\t%s\n" v.model;
    List.iter (fun (p, k) -> Printf.printf "FAIL\t%s\t%s\n" p k) v.fails
  | [_; "run"; stream; cases; impl] ->
    let ic = open_in cases and ii = open_in impl in
    let n = ref 0 and nd = ref 0 and nf = ref 0 in
    (try
       while true do
         let c = input_line ic in
         let i = (try input_line ii with End_of_file -> failwith "impl file shorter than cases file") in
         let v = eval_stream stream c i in
         if v.model <> i then begin
           incr nd;
           if !nd <= 50 then Printf.printf "DIFF\t%d\t%s\t%s\t%s\n" !n c i v.model
         end;
         List.iter (fun (p, k) ->
             incr nf;
             if !nf <= 200 then Printf.printf "SPECFAIL\t%s\t%d\t%s\t%s\t%s\n" p !n k c i) v.fails;
         incr n
       done
     with End_of_file -> ());
    Printf.printf "DONE\t%d\t%d\t%d\n" !n !nd !nf
  | _ -> prerr_endline "usage: oracle run <stream> <cases> <impl> | oracle eval <stream> <case>"; exit 2
