(* oracle side of the `body` stream *)
open Conv
module M = Model

let parse_sizes (s : string) : int list =
  List.concat_map (fun t ->
      match String.index_opt t '*' with
      | Some i -> let k = int_of_string (String.sub t 0 i) and c = int_of_string (String.sub t (i + 1) (String.length t - i - 1)) in
        List.init c (fun _ -> k)
      | None -> [int_of_string t]) (List.filter (fun x -> x <> "") (split_on ',' s))

let is_prefix_of (a : M.byte list) (b : M.byte list) : bool =
  let rec go a b = match a, b with [], _ -> true | x :: a', y :: b' -> x = y && go a' b' | _ :: _, [] -> false in go a b

let eval case impl =
  match split_on ' ' case with
  | [kind; lo; segs; ms] ->
    let leftover = bytes_of_hex lo in
    let unbang t = if String.length t > 0 && (t.[0] = '!' || t.[0] = '^') then String.sub t 1 (String.length t - 1) else t in
    let segl = if segs = "-" then [] else List.map (fun t -> bytes_of_hex (unbang t)) (split_on ',' segs) in
    let mode = ms.[0] in
    let sizes = List.map n_of_int (parse_sizes (String.sub ms 1 (String.length ms - 1))) in
    (* segments written `!<hex>`: the stream fails once with Interrupted before delivering them (Model/BodyIntr.v) *)
    let has_fail = segs <> "-" && List.exists (fun t -> String.length t > 0 && t.[0] = '^') (split_on ',' segs) in
    let has_intr = segs <> "-" && List.exists (fun t -> String.length t > 0 && t.[0] = '!') (split_on ',' segs) in
    let evs = if segs = "-" then [] else List.concat_map (fun t ->
        if String.length t > 0 && t.[0] = '!' then [M.SIntr; M.SData (bytes_of_hex (unbang t))] else [M.SData (bytes_of_hex (unbang t))]) (split_on ',' segs) in
    let b0 =
      if kind.[0] = 'F' then M.new_fixed leftover segl (n_of_string (String.sub kind 1 (String.length kind - 1)))
      else if kind = "C" then M.new_chunked leftover segl
      else M.new_eof leftover segl in
    (* mode M (read and fill_buf/consume taking turns on one reader) is judged by the spec alone: the model has the two
       loops separately *)
    let model =
      (* modes V / L (interrupted reads under callers that retry): judged by the spec alone as well - the model's stream never fails *)
      if mode = 'M' || mode = 'V' || mode = 'L' then impl
      else if has_fail && (kind.[0] = 'F' || kind = "C") then begin
        (* failures that std does not retry (Model/BodyFail.v), under a caller that swallows them and goes on calling *)
        let evs2 = List.concat_map (fun t ->
            if String.length t > 0 && t.[0] = '!' then [M.S2Intr; M.S2Data (bytes_of_hex (unbang t))]
            else if String.length t > 0 && t.[0] = '^' then [M.S2Fail; M.S2Data (bytes_of_hex (unbang t))]
            else [M.S2Data (bytes_of_hex t)]) (split_on ',' segs) in
        let bf = if kind.[0] = 'F' then M.new_fixed_f leftover evs2 (n_of_string (String.sub kind 1 (String.length kind - 1))) else M.new_chunked_f leftover evs2 in
        let rec rloop b szs acc = match szs with
          | [] -> (acc, "MORE")
          | k :: rest -> (match M.body_read_f k b with
              | M.FErr (_, _) -> (acc, "ERR")
              | M.FIntr b' | M.FFail b' -> rloop b' rest acc
              | M.FOk ([], b') -> if k = M.N0 then rloop b' rest acc else (acc, "EOF")
              | M.FOk (o, b') -> rloop b' rest (acc @ o)) in
        let rec bloop b amts acc = match amts with
          | [] -> (acc, "MORE")
          | a :: rest -> (match M.body_fill_buf_f b with
              | M.FErr (_, _) -> (acc, "ERR")
              | M.FIntr b' | M.FFail b' -> bloop (M.body_consume_f M.N0 b') rest acc
              | M.FOk ([], _) -> (acc, "EOF")
              | M.FOk (avail, b') ->
                let rec take n l = if n <= 0 then [] else match l with [] -> [] | x :: t -> x :: take (n - 1) t in
                let got = take (int_of_n a) avail in
                bloop (M.body_consume_f (n_of_int (List.length got)) b') rest (acc @ got)) in
        let (out, st) = if mode = 'R' then rloop bf sizes [] else bloop bf sizes [] in
        hex_of_bytes out ^ " " ^ st end
      else if has_intr && (kind.[0] = 'F' || kind = "C") then begin
        (* the model with events, call by call: an interrupted call delivers nothing and the loop goes on with the next entry *)
        let be = if kind.[0] = 'F' then M.new_fixed_e leftover evs (n_of_string (String.sub kind 1 (String.length kind - 1))) else M.new_chunked_e leftover evs in
        let rec rloop b szs acc = match szs with
          | [] -> (acc, "MORE")
          | k :: rest -> (match M.body_read_e k b with
              | M.EErr (_, _) -> (acc, "ERR")
              | M.EIntr b' -> rloop b' rest acc
              | M.EOk ([], b') -> if k = M.N0 then rloop b' rest acc else (acc, "EOF")
              | M.EOk (o, b') -> rloop b' rest (acc @ o)) in
        let rec bloop b amts acc = match amts with
          | [] -> (acc, "MORE")
          | a :: rest -> (match M.body_fill_buf_e b with
              | M.EErr (_, _) -> (acc, "ERR")
              | M.EIntr b' -> bloop (M.body_consume_e M.N0 b') rest acc
              | M.EOk ([], _) -> (acc, "EOF")
              | M.EOk (avail, b') ->
                let rec take n l = if n <= 0 then [] else match l with [] -> [] | x :: t -> x :: take (n - 1) t in
                let got = take (int_of_n a) avail in
                bloop (M.body_consume_e (n_of_int (List.length got)) b') rest (acc @ got)) in
        let (out, st) = if mode = 'R' then rloop be sizes [] else bloop be sizes [] in
        hex_of_bytes out ^ " " ^ st end
      else begin
        (* Read loop as in Model.read_all, except that a zero-sized read (an empty caller buffer) is not an end report *)
        let rec rloop b szs acc = match szs with
          | [] -> (acc, "MORE")
          | k :: rest -> (match M.body_read k b with
              | M.RErr (_, _) -> (acc, "ERR")
              | M.ROk ([], b') -> if k = M.N0 then rloop b' rest acc else (acc, "EOF")
              | M.ROk (o, b') -> rloop b' rest (acc @ o)) in
        if mode = 'R' then (let (out, st) = rloop b0 sizes [] in hex_of_bytes out ^ " " ^ st)
        else begin
        let ((out, oc), _) = M.bufread_all b0 sizes [] in
        let st = match oc with M.AtEof -> "EOF" | M.Failed _ -> "ERR" | M.More -> "MORE" in
        hex_of_bytes out ^ " " ^ st end end in
    (* spec: what the encoding means, independently of the reader model *)
    let total = leftover @ List.concat segl in
    let expected =
      if kind.[0] = 'F' then Some (M.spec_fixed (n_of_string (String.sub kind 1 (String.length kind - 1))) total)
      else if kind = "C" then Some (M.spec_decode total)
      else None in
    let ok =
      (* a caller that swallowed a timed-out read has been told: what it is given afterwards is the model's business only (DIFF) *)
      if has_fail then true else
      match expected, split_on ' ' impl with
      | None, _ -> true
      | Some e, [ihex; ist] ->
        let iout = bytes_of_hex ihex in
        (match e with
         | M.Valid (p, _) ->
           (* exactly the payload then end-of-body; MORE only when the read sizes ran out (then a prefix) *)
           (ist = "EOF" && iout = p) || (ist = "MORE" && is_prefix_of iout p && List.length (List.filter (fun k -> k <> M.N0) sizes) <= List.length p)
         | M.Invalid _ -> ist = "ERR" || ist = "MORE"          (* never a short or altered body reported as complete *)
         | M.Unspecified -> ist <> "PANIC")
      | Some _, _ -> false in
    (model, if ok then [] else [("C06", "-")])
  | _ -> failwith "bad body case"
