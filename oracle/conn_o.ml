(* oracle side of the connection streams (conn05 / conn07 / conn09 / conn10 / connmix) *)
open Conv
module M = Model

let starts p s = String.length s >= String.length p && String.sub s 0 (String.length p) = p
let str_after p s = String.sub s (String.length p) (String.length s - String.length p)

(* the test application, as in harness/src/s_conn.rs *)
let path_of (r : M.request) : string =
  match M.uri_path r.M.q_target with M.Ok p -> string_of_bytes p | _ -> ""
let rec describe (r : M.request) (body : M.byte list) : M.byte list =
  (* /empty0 answers with an empty body (ok0 / send0) *)
  if starts "/empty0" (path_of r) then [] else describe_full r body
and describe_full (r : M.request) (body : M.byte list) : M.byte list =
  let q = match M.uri_query r.M.q_target with M.Ok (Some q) -> string_of_bytes q | _ -> "-" in
  bytes_of_string (Printf.sprintf "%s %s %s %s" (string_of_bytes (M.method_str r.M.q_meth)) (path_of r) q (hex_of_bytes body))
let behaviour_of (r : M.request) : M.behaviour =
  let p = path_of r in
  let num s = try int_of_string s with _ -> 0 in
  if starts "/all" p then M.BAll
  else if starts "/k/" p then M.BReadK (n_of_int (num (str_after "/k/" p)))
  else if starts "/first" p then M.BFirst
  else if starts "/hold" p || starts "/slow/" p then M.BHold
  else if starts "/errk/" p then M.BErr
  else if starts "/closer" p || starts "/closeka" p then M.BClose
  else if starts "/errafter" p then M.BErrAfter
  else if starts "/err" p then M.BErr
  else if starts "/close" p then M.BClose
  else if starts "/reader/" p then M.BReader (n_of_int (num (str_after "/reader/" p)))
  else if starts "/none" p || starts "/empty0" p then M.BNone (n_of_int 200)
  else M.BNone (n_of_int 404)
let hook_of (r : M.request) : M.hook_action =
  match M.get r.M.q_hdrs (bytes_of_string "x-hook") with
  | Some v -> let s = string_of_bytes v in
    if s = "answer" then M.HAnswer else if s = "answer-close" then M.HAnswerClose else M.HProceed
  | None -> M.HProceed
let the_app : M.app0 = { M.behaviour_of = behaviour_of; M.hook_of = hook_of; M.describe = describe }

let show_resp (e : M.response_ev) =
  Printf.sprintf "%d,%s,%s" (int_of_n e.M.rs_status) (hex_of_bytes e.M.rs_body) (if e.M.rs_close then "c" else "k")

(* script -> (max_head, segments as the server's reads see them, #R steps, client closed its side) *)
let parse_script (case : string) =
  match split_on ';' case with
  | n :: steps ->
    (* `N=<limit>[,W..]`: the optional warm-up (another connection served on the same thread beforehand) is history the model
       does not have - and must not need *)
    let n = (match String.index_opt n ',' with Some i -> String.sub n 0 i | None -> n) in
    let maxh = int_of_string (str_after "N=" n) in
    let segs = ref [] and since_r = ref [] and nr = ref 0 and closed = ref false in
    let flush () = segs := !segs @ List.rev !since_r; since_r := [] in
    List.iter (fun st ->
        if st = "" then () else
          match st.[0] with
          | 'D' -> if not !closed then since_r := bytes_of_hex (str_after "D" st) :: !since_r
          | 'R' -> flush (); incr nr
          | 'G' -> (* everything delivered while the handler was held arrives as one piece *)
            let merged = List.concat (List.rev !since_r) in
            since_r := []; if merged <> [] then segs := !segs @ [merged]
          | 'X' -> flush (); closed := true
          (* a pause longer than the read timeout of the server's socket (setting `,T<ms>`): the read the server is blocked in
             fails; to the server the stream is unreadable from here on, as at an end of input - what is sent later is never read *)
          | 'P' -> flush (); closed := true
          | _ -> failwith "bad step") steps;
    flush ();
    (maxh, !segs, !nr, !closed)
  | [] -> failwith "empty script"

let transcript resps nr ended_closed waiting closed_by_client ok =
  let rs = Array.of_list (List.map show_resp resps) in
  let entries = List.init nr (fun i -> if i < Array.length rs then rs.(i) else if waiting && not closed_by_client then "TIMEOUT" else "CLOSED") in
  ignore ended_closed;
  String.concat ";" entries ^ (if waiting && not closed_by_client then "|OPEN" else "|EOF") ^ (if ok then "|ok" else "|err")

(* strip the `|ok` / `|err` suffix: the spec does not speak about the io::Result *)
let without_result (t : string) =
  match String.rindex_opt t '|' with Some i -> String.sub t 0 i | None -> t

let eval (props : string list) case impl =
  let (maxh, segs, nr, closed) = parse_script case in
  let r = M.serve_conn the_app (nat_of_int maxh) segs in
  let model = transcript r.M.c_resps nr (not r.M.c_waiting) r.M.c_waiting closed r.M.c_ok in
  (* spec: sequential interpretation of the concatenated bytes *)
  let total = List.concat segs in
  let (sresps, ending) = M.spec_conn the_app (nat_of_int maxh) total in
  let spec = transcript sresps nr (ending = M.EClosed) (ending <> M.EClosed) closed true in
  (* "no response at this lock-step point": whether the peer then saw a timeout or a close is timing *)
  (* lock-step points at which no response arrived are dropped: which R a late response lands on is timing *)
  let canon t =
    match String.index_opt t '|' with
    | None -> t
    | Some i ->
      let entries = List.filter (fun e -> e <> "TIMEOUT" && e <> "CLOSED" && e <> "") (split_on ';' (String.sub t 0 i)) in
      String.concat ";" entries ^ String.sub t i (String.length t - i) in
  let body_of t = match String.index_opt t '|' with Some i -> String.sub t 0 i | None -> t in
  let ok =
    if ending = M.EUnspec then starts (body_of (canon (without_result spec))) (body_of (canon (without_result impl)))
    else canon (without_result spec) = canon (without_result impl) in
  if Sys.getenv_opt "ORACLE_DEBUG" <> None && not ok then Printf.eprintf "SPEC: %s\nIMPL: %s\n" spec impl;
  (* recorded findings (known_findings.json): the trigger predicates are the extracted Coq definitions *)
  let tag =
    if ok then "-"
    else if List.mem "C07" props && M.known_F20c the_app (nat_of_int maxh) segs then "F20c"
    else if List.mem "C07" props && M.known_F21 the_app (nat_of_int maxh) segs then "F21"
    else "-" in
  ((if canon model = canon impl then impl else model), if ok then [] else List.map (fun p -> (p, tag)) props)


(* connpipe stream: pipelined histories, the same bytes under several segmentations (scripts joined by '#').
   Every script is judged against the sequential reading of its bytes (spec_conn); the first entry at which the transcript
   departs from it says which properties the departure falls under:
     C07  always (one response per request, in order, each from its own bytes; the byte behind a body starts the next request)
     C10  a request whose head fits the limit was not processed normally, or 431 given / withheld wrongly
     C09  the connection was closed or left unserved where it had to stay open, or served after a close; a wrong close token
     C05  400 given / withheld wrongly, a wrong body presented, or the place where the next request begins lost
     C06  a handler was presented with a body that is not the payload
     C20  a head that is not complete within the limit was buffered and served instead of refused
   and C03 when the segmentations of one byte string do not all give the same transcript. *)
let eval_pipe case impl =
  let scripts = split_on '#' case and ts = split_on '#' impl in
  let canon_entries t =
    let b = match String.index_opt t '|' with Some i -> String.sub t 0 i | None -> t in
    List.filter (fun e -> e <> "TIMEOUT" && e <> "CLOSED" && e <> "") (split_on ';' b) in
  let ending_of t = match split_on '|' t with _ :: e :: _ -> e | _ -> "" in
  let fails = ref [] in
  let add p = if not (List.mem (p, "-") !fails) then fails := !fails @ [(p, "-")] in
  let models = List.mapi (fun k sc ->
      let (maxh, segs, nr, closed) = parse_script sc in
      let r = M.serve_conn the_app (nat_of_int maxh) segs in
      let model = transcript r.M.c_resps nr (not r.M.c_waiting) r.M.c_waiting closed r.M.c_ok in
      let (sresps, ending) = M.spec_conn the_app (nat_of_int maxh) (List.concat segs) in
      let spec = transcript sresps nr (ending = M.EClosed) (ending <> M.EClosed) closed true in
      let t = (match List.nth_opt ts k with Some t -> t | None -> "") in
      let se = canon_entries spec and ie = canon_entries t in
      let field e k = match List.nth_opt (split_on ',' e) k with Some x -> x | None -> "" in
      let rec first_diff s i = match s, i with
        | [], [] -> None
        | x :: s', y :: i' -> if x = y then first_diff s' i' else Some (Some x, Some y)
        | x :: _, [] -> Some (Some x, None)
        | [], y :: _ -> Some (None, Some y) in
      (if ending <> M.EUnspec then
         match first_diff se ie with
         | None -> if ending_of (without_result spec) <> ending_of (without_result t) then (add "C07"; add "C09")
         | Some (Some x, Some y) ->
           add "C07";
           let sx = field x 0 and sy = field y 0 in
           if sx <> sy then begin
             if sx = "431" || sy = "431" then (add "C10"; add "C09");
             (* a head longer than the limit was buffered and served *)
             if sx = "431" && sy <> "400" then add "C20";
             if sx = "400" || sy = "400" then add "C05";
             if sx <> "431" && sx <> "400" && maxh < 4096 then add "C10"
           end else begin
             if field x 1 <> field y 1 then (add "C05"; add "C06");
             if field x 2 <> field y 2 then add "C09"
           end
         | Some (Some x, None) ->
           add "C07"; add "C09"; add "C05";
           if field x 0 <> "431" && field x 0 <> "400" && maxh < 4096 then add "C10"
         | Some (None, Some _) -> add "C07"; add "C09"; add "C05");
      model) scripts in
  let cts = List.map (fun t -> (canon_entries t, ending_of (without_result t))) ts in
  let same = (match cts with a :: rest -> List.for_all (fun t -> t = a) rest | [] -> false) in
  if not same then add "C03";
  let model_same = List.length models = List.length ts
                   && List.for_all2 (fun m t -> canon_entries m = canon_entries t && ending_of m = ending_of t) models ts in
  ((if model_same then impl else String.concat "#" models), !fails)


(* readloop stream (C03 at connection level): `<hex> <segmentations>`; impl = transcripts joined by '#'.
   Every segmentation must give the same transcript, and its class must be the one the sequential
   interpretation of the bytes gives (400 for a malformed head or unframeable request, nothing for an
   incomplete head, an answer otherwise). *)
let eval_readloop case impl =
  match split_on ' ' case with
  | [h; _] ->
    let input = bytes_of_hex h in
    let (sresps, ending) = M.spec_conn the_app (nat_of_int 4096) input in
    let cls = match sresps with
      | r :: _ -> if int_of_n r.M.rs_status = 400 || int_of_n r.M.rs_status = 431 then "rejected" else "answered"
      | [] -> (match ending with M.EWaiting -> "incomplete" | M.EClosed -> "closed" | M.EUnspec -> "unspecified") in
    let ts = split_on '#' impl in
    let first = match ts with t :: _ -> t | [] -> "" in
    let icls = if starts "CLOSED" first then "incomplete" else if starts "400," first || starts "431," first then "rejected"
      else if starts "TIMEOUT" first then "timeout" else "answered" in
    let same = List.for_all (fun t -> t = first) ts in
    (* a handler error (no response, close) also shows as CLOSED at the lock-step point *)
    let cls_ok = icls = cls || (cls = "closed" && icls = "incomplete") || cls = "unspecified" in
    let m = cls ^ " same" in
    (* C02 at connection level: a head the sequential spec answers (accepted, not 400 / 431) must be answered under every segmentation *)
    let cls_of t = if starts "CLOSED" t then "incomplete" else if starts "400," t || starts "431," t then "rejected"
      else if starts "TIMEOUT" t then "timeout" else "answered" in
    let c02_bad = cls = "answered" && List.exists (fun t -> cls_of t <> "answered") ts in
    ((if same && cls_ok then impl else m), (if same && cls_ok then [] else [("C03", "-")]) @ (if c02_bad then [("C02", "-")] else []))
  | _ -> failwith "bad readloop case"


(* segpair stream (C03): the same lock-step exchange under several segmentations of the first request *)
let eval_segpair case impl =
  let scripts = split_on '#' case and ts = split_on '#' impl in
  let canon t =
    match String.index_opt t '|' with
    | None -> t
    | Some i ->
      let entries = List.filter (fun e -> e <> "TIMEOUT" && e <> "CLOSED" && e <> "") (split_on ';' (String.sub t 0 i)) in
      String.concat ";" entries ^ String.sub t i (String.length t - i) in
  let models = List.map (fun sc ->
      let (maxh, segs, nr, closed) = parse_script sc in
      let r = M.serve_conn the_app (nat_of_int maxh) segs in
      transcript r.M.c_resps nr (not r.M.c_waiting) r.M.c_waiting closed r.M.c_ok) scripts in
  let cts = List.map canon ts in
  let same = (match cts with a :: rest -> List.for_all (fun t -> t = a) rest | [] -> false) in
  let model_same = List.length models = List.length ts && List.for_all2 (fun m t -> canon m = canon t) models ts in
  ((if model_same then impl else String.concat "#" models), if same then [] else [("C03", "-")])
